"""Bounded-exhaustive generators. Everything is deterministic and ordered simplest-first."""
import functools
import itertools

# ---- plain values ------------------------------------------------------------------------------------------------


def canon(v):
    """Type-strict canonical form of a plain JSON-like value (bool != int, int != float, dict unordered)."""
    if v is None:
        return ('n',)
    t = type(v)
    if t is bool:
        return ('b', v)
    if t is int:
        return ('i', v)
    if t is float:
        return ('f', repr(v))
    if t is str:
        return ('s', v)
    if t is bytes:
        return ('y', v)
    if t is list or t is tuple:
        return ('l', tuple(canon(x) for x in v))
    if t is dict:
        return ('d', tuple(sorted(((canon(k), canon(x)) for k, x in v.items()))))
    if t is Bag:
        return ('bag', tuple(sorted(canon(x) for x in v.items)))
    if t is Pair:
        return ('kv', canon(v.key), canon(v.value))
    raise TypeError(f'canon: unsupported {t}')


def bagform(v):
    """Like canon but every list is turned into a bag (used where only multiset information exists)."""
    return _bagify(canon(v))


def _bagify(c):
    if c[0] == 'l' or c[0] == 'bag':
        return ('bag', tuple(sorted(_bagify(x) for x in c[1])))
    if c[0] == 'd':
        return ('d', tuple(sorted((k, _bagify(x)) for k, x in c[1])))
    if c[0] == 'kv':
        return ('kv', c[1], _bagify(c[2]))
    return c


class Bag:
    """A multiset of plain values (what a bare MultiSetNode holds)."""

    def __init__(self, items):
        self.items = list(items)

    def __repr__(self):
        return f'Bag({self.items!r})'


class Pair:
    def __init__(self, key, value):
        self.key = key
        self.value = value

    def __repr__(self):
        return f'Pair({self.key!r}, {self.value!r})'


def teq(a, b):
    return canon(a) == canon(b)


def size(v):
    if isinstance(v, (list, tuple)):
        return 1 + sum(size(x) for x in v)
    if isinstance(v, dict):
        return 1 + sum(size(x) for x in v.values())
    return 1


def compositions(total, parts):
    """All ordered ways to write total as a sum of `parts` positive integers."""
    if parts == 0:
        if total == 0:
            yield ()
        return
    if parts == 1:
        if total >= 1:
            yield (total,)
        return
    for first in range(1, total - parts + 2):
        for rest in compositions(total - first, parts - 1):
            yield (first,) + rest


class DocSpace:
    """All JSON-like values with exactly n nodes (scalar or container = 1 node), depth <= maxdepth."""

    def __init__(self, scalars, keys, maxdepth=3, lists=True, dicts=True, max_arity=None):
        self.scalars = tuple(scalars)
        self.keys = tuple(keys)
        self.maxdepth = maxdepth
        self.lists = lists
        self.dicts = dicts
        self.max_arity = max_arity
        self._cache = {}

    def exact(self, n, depth=None):
        if depth is None:
            depth = self.maxdepth
        key = (n, depth)
        if key in self._cache:
            return self._cache[key]
        out = []
        if n == 1:
            out.extend(self.scalars)
        if depth > 0 and n >= 1:
            rest = n - 1
            max_ar = rest if self.max_arity is None else min(rest, self.max_arity)
            if self.lists:
                for arity in range(0, max_ar + 1):
                    for comp in compositions(rest, arity):
                        for kids in itertools.product(*(self.exact(c, depth - 1) for c in comp)):
                            out.append(list(kids))
            if self.dicts:
                for arity in range(0, min(max_ar, len(self.keys)) + 1):
                    for ks in itertools.combinations(self.keys, arity):
                        for comp in compositions(rest, arity):
                            for vals in itertools.product(*(self.exact(c, depth - 1) for c in comp)):
                                out.append(dict(zip(ks, vals)))
        self._cache[key] = out
        return out

    def upto(self, n):
        for k in range(1, n + 1):
            yield from self.exact(k)

    def pairs(self, budget):
        """All ordered pairs (A, B) with |A| + |B| <= budget, ordered by total size, then |A|."""
        for total in range(2, budget + 1):
            for na in range(1, total):
                nb = total - na
                for a in self.exact(na):
                    for b in self.exact(nb):
                        yield a, b

    def count_pairs(self, budget):
        return sum(len(self.exact(na)) * len(self.exact(t - na)) for t in range(2, budget + 1) for na in range(1, t))


# ---- build options -----------------------------------------------------------------------------------------------
DICT_STRATEGIES = ('auto', 'match', 'none')
LIST_MODES = ('on', 'off', 'samelen')
OPTION_SETS = tuple((ds, lm) for ds in DICT_STRATEGIES for lm in LIST_MODES)


def build_options(opt):
    from graphtage.graphtage import BuildOptions
    ds, lm = opt
    return BuildOptions(
        allow_key_edits=(ds != 'none'),
        auto_match_keys=(ds == 'auto'),
        allow_list_edits=(lm != 'off'),
        allow_list_edits_when_same_length=(lm != 'samelen'),
    )


def cli_flags(opt):
    ds, lm = opt
    flags = []
    if ds != 'auto':
        flags += ['--dict-strategy', ds]
    if lm == 'off':
        flags += ['-l']
    elif lm == 'samelen':
        flags += ['-ll']
    return flags


def strings(alphabet, maxlen):
    for n in range(0, maxlen + 1):
        for t in itertools.product(alphabet, repeat=n):
            yield ''.join(t)

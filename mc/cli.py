"""In-process harness for graphtage.__main__.main with full isolation between calls, plus a subprocess runner.

main() closes its printer (which closes the capture stream), rebinds printer.DEFAULT_PRINTER, installs a root logging
handler on first use and calls colorama.init() for colour printers. All of that is pinned or restored here so that
one call cannot influence the next; C07 checks exactly this isolation claim with its history leg.
"""
import io
import logging
import os
import subprocess
import sys
import traceback

from mc.run import REPO, VERIF


class Capture(io.StringIO):
    """A text stream that survives close() and has no file descriptor (so Printer writes through it directly)."""

    def __init__(self):
        super().__init__()
        self.close_calls = 0

    def close(self):
        self.close_calls += 1

    def fileno(self):
        raise io.UnsupportedOperation('capture stream has no fileno')

    def isatty(self):
        return False


class TerminalLikeCapture(Capture):
    """A capture stream that reports a file descriptor, so that StatusWriter takes the path it takes on the real
    stdout / stderr of a process (line buffering through tqdm.write) instead of writing through."""

    def __init__(self, fd):
        super().__init__()
        self._fd = fd

    def fileno(self):
        return self._fd


_colorama_pinned = False


def pin_colorama():
    """Printer(ansi_color=True) calls colorama.init() each time, stacking wrappers on sys.stdout. The Printer writes
    to its own stream, so a no-op init changes no output byte (confirmed by the subprocess legs)."""
    global _colorama_pinned
    if not _colorama_pinned:
        import colorama
        import graphtage.printer as gp
        colorama.init = lambda *a, **k: None
        gp.colorama.init = colorama.init
        _colorama_pinned = True


class Outcome:
    __slots__ = ('rc', 'out', 'err', 'exc', 'exc_site', 'tb', 'frames')

    def __init__(self):
        self.rc = None
        self.out = ''
        self.err = ''
        self.exc = None
        self.exc_site = None
        self.tb = ''
        self.frames = []

    def summary(self):
        return (self.rc, self.out, self.exc)


def run_main(argv, stdin_text=None, like_a_process=False):
    """Call graphtage.__main__.main(['graphtage'] + argv) in this process; returns an Outcome.
    like_a_process: the capture streams report distinct file descriptors, as the standard streams of a process do."""
    import graphtage.printer as gp
    from graphtage import __main__ as gmain
    from mc.script import site_of
    pin_colorama()
    o = Outcome()
    out, err = (TerminalLikeCapture(1001), TerminalLikeCapture(1002)) if like_a_process else (Capture(), Capture())
    saved = (sys.stdout, sys.stderr, sys.stdin, gp.DEFAULT_PRINTER)
    root = logging.getLogger()
    saved_handlers = list(root.handlers)
    saved_level = root.level
    saved_disable = logging.root.manager.disable
    sys.stdout, sys.stderr = out, err
    logging.disable(logging.NOTSET)      # the runner silences logging globally; a real process does not
    if stdin_text is not None:
        sys.stdin = io.TextIOWrapper(io.BytesIO(stdin_text.encode('utf-8')))
    try:
        try:
            o.rc = gmain.main(['graphtage'] + list(argv))
        except SystemExit as se:
            o.rc = se.code if isinstance(se.code, int) else (0 if se.code is None else 1)
            o.exc = 'SystemExit'
        except BaseException as e:  # noqa
            from mc.run import CaseTimeout
            if isinstance(e, (CaseTimeout, KeyboardInterrupt)):
                raise
            o.exc = type(e).__name__
            o.exc_site = site_of(e)
            o.frames = [f'{fr.filename.rsplit("/", 1)[-1]}:{fr.name}' for fr in traceback.extract_tb(e.__traceback__)
                        if '/graphtage/' in fr.filename]
            text = traceback.format_exc()
            o.tb = text if len(text) < 3000 else text[:1200] + '\n...\n' + text[-1500:]
    finally:
        sys.stdout, sys.stderr, sys.stdin, gp.DEFAULT_PRINTER = saved
        for hd in list(root.handlers):
            if hd not in saved_handlers:
                root.removeHandler(hd)
        root.setLevel(saved_level)
        logging.disable(saved_disable)
        gp.ANSI_CONTEXT_STACK.clear()
    o.out = out.getvalue()
    o.err = err.getvalue()
    return o


def run_subprocess(argv, hashseed=0, cwd=None, timeout=120):
    """Run `python -m graphtage argv` in a fresh interpreter on real file descriptors."""
    env = dict(os.environ)
    env['PYTHONHASHSEED'] = str(hashseed)
    env['PYTHONPATH'] = REPO
    env['PYTHONDONTWRITEBYTECODE'] = '1'
    env.pop('PYTHONPYCACHEPREFIX', None)
    p = subprocess.run([sys.executable, '-X', 'pycache_prefix=/dev/null/nonexistent', '-m', 'graphtage'] + list(argv),
                       capture_output=True, env=env, cwd=cwd, timeout=timeout)
    return p.returncode, p.stdout.decode('utf-8', 'replace'), p.stderr.decode('utf-8', 'replace')


# ---- files -------------------------------------------------------------------------------------------------------
def write_file(directory, name, data):
    p = os.path.join(directory, name)
    mode = 'wb' if isinstance(data, bytes) else 'w'
    kw = {} if isinstance(data, bytes) else {'encoding': 'utf-8', 'newline': ''}
    with open(p, mode, **kw) as f:
        f.write(data)
    return p


def has_marks(text, color):
    """Whether rendered text carries any change mark."""
    if color:
        return ('̶' in text) or ('̟' in text) or ('\x1b[41m' in text) or ('\x1b[42m' in text)
    return ('~~' in text) or ('++' in text) or (' -> ' in text)

"""Canonical fingerprint of a Python object graph (used to merge explicit-state search states).

Correctness argument for merging: two states with equal fingerprints have isomorphic reachable object graphs
(attribute names, container contents in iteration order, numpy buffers, suspended generator positions and locals,
closure cells; object identity replaced by first-visit index), hence identical futures under identical operations.
Anything the walker cannot introspect (C iterators such as itertools.chain) becomes a token that is unique per walk
*and* per object, so such states are never merged: that only costs time and can never hide a behaviour.
"""
import hashlib
import itertools
import types

_UNIQUE = itertools.count()

try:
    import numpy as _np
except Exception:  # noqa
    _np = None

ATOMS = (bool, int, float, str, bytes, complex, type(None), type(Ellipsis))


_MISSING = object()


def fingerprint(root, skip_attrs=(), drop_class_defaults=False):
    memo = {}
    opaque = [0]

    def walk(o, depth=0):
        if isinstance(o, ATOMS):
            return (type(o).__name__, o)
        oid = id(o)
        if oid in memo:
            return ('ref', memo[oid])
        memo[oid] = len(memo)
        t = type(o)
        if t in (list, tuple):
            return (t.__name__, tuple(walk(x, depth + 1) for x in o))
        if isinstance(o, dict):
            return ('dict:' + t.__name__, tuple((walk(k, depth + 1), walk(v, depth + 1)) for k, v in o.items()),
                    walk(getattr(o, '__dict__', None), depth + 1) if t is not dict else None)
        if isinstance(o, (set, frozenset)):
            return ('set:' + t.__name__, tuple(sorted(repr(walk(x, depth + 1)) for x in o)))
        if _np is not None and isinstance(o, _np.ndarray):
            return ('nd', o.dtype.str, o.shape, o.tobytes())
        if _np is not None and isinstance(o, _np.generic):
            return ('npscalar', o.dtype.str, o.item())
        if isinstance(o, types.GeneratorType):
            fr = o.gi_frame
            if fr is None:
                return ('gen-done', o.__qualname__)
            return ('gen', o.__qualname__, fr.f_lasti, walk(dict(fr.f_locals), depth + 1))
        if isinstance(o, (types.FunctionType, types.LambdaType)):
            cells = tuple(walk(c.cell_contents, depth + 1) if _has(c) else ('emptycell',) for c in (o.__closure__ or ()))
            return ('fn', o.__module__, o.__qualname__, cells)
        if isinstance(o, types.MethodType):
            return ('method', o.__func__.__qualname__, walk(o.__self__, depth + 1))
        if isinstance(o, (type, types.ModuleType, types.BuiltinFunctionType, types.MethodDescriptorType,
                          types.WrapperDescriptorType, types.GetSetDescriptorType, types.MemberDescriptorType)):
            return ('static', getattr(o, '__module__', ''), getattr(o, '__qualname__', getattr(o, '__name__', repr(o))))
        d = getattr(o, '__dict__', None)
        slots = getattr(t, '__slots__', None)
        if d is None and not slots:
            opaque[0] += 1
            return ('opaque', t.__name__, next(_UNIQUE))
        items = []
        if d is not None:
            for k in sorted(d):
                if k in skip_attrs:
                    continue
                if drop_class_defaults and getattr(t, k, _MISSING) is d[k]:
                    # an instance attribute that merely repeats the class-level default carries no information
                    continue
                items.append((k, walk(d[k], depth + 1)))
        if slots:
            for k in ([slots] if isinstance(slots, str) else slots):
                if hasattr(o, k):
                    items.append((k, walk(getattr(o, k), depth + 1)))
        return ('obj', t.__module__, t.__qualname__, tuple(items))

    import sys
    old = sys.getrecursionlimit()
    sys.setrecursionlimit(max(old, 20000))
    try:
        tree = walk(root)
    finally:
        sys.setrecursionlimit(old)
    digest = hashlib.sha1(repr(tree).encode('utf-8', 'backslashreplace')).hexdigest()[:20]
    return digest, opaque[0]


def _has(cell):
    try:
        cell.cell_contents
        return True
    except ValueError:
        return False

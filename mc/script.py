"""Independent interpreter of graphtage edit scripts: plain values of nodes, reconstruction of both documents
from a script, canonical scripts, cost walks. Deliberately boring; shares no code with graphtage's own
to_obj()/printing."""
from mc.gen import Bag, Pair, canon

ABSENT = ('<absent>',)


class ScriptError(Exception):
    """The script is not well formed (e.g. a dict with a non-pair member, duplicate key, edit class unknown)."""

    def __init__(self, kind, detail, site=None):
        super().__init__(f'{kind}: {detail}')
        self.kind = kind
        self.detail = detail
        self.site = site


def G():
    import graphtage
    return graphtage


def plain(node):
    """Plain value of a graphtage node, computed from its structure (not via to_obj())."""
    g = G()
    from graphtage.xml import XMLElement
    from graphtage.plist import PLISTNode
    if isinstance(node, g.NullNode):
        return None
    if isinstance(node, g.LeafNode):
        return node.object
    if isinstance(node, g.KeyValuePairNode):
        return Pair(plain(node.key), plain(node.value))
    if isinstance(node, XMLElement):
        return {'#tag': plain(node.tag), '#attrib': plain(node.attrib),
                '#text': None if node.text is None else plain(node.text),
                '#children': [plain(c) for c in node._children._children]}
    if isinstance(node, PLISTNode):
        return plain(node.root)
    if isinstance(node, g.MappingNode):
        return assemble(node, [plain(c) for c in node])
    if isinstance(node, g.MultiSetNode):
        return Bag(plain(c) for c in node)
    if isinstance(node, g.ListNode):
        return [plain(c) for c in node._children]
    if isinstance(node, g.ContainerNode):
        return {'#class': type(node).__name__.replace('Edited', ''), '#children': [plain(c) for c in node.children()]}
    raise ScriptError('unknown_node', type(node).__name__)


def assemble(container, items):
    g = G()
    if isinstance(container, g.MappingNode):
        d = {}
        for it in items:
            if not isinstance(it, Pair):
                raise ScriptError('mapping_member_not_pair', repr(it)[:80], type(container).__name__)
            try:
                dup = it.key in d
            except TypeError:
                raise ScriptError('unhashable_key', repr(it.key), type(container).__name__)
            if dup:
                raise ScriptError('duplicate_key', repr(it.key), type(container).__name__)
            d[it.key] = it.value
        return d
    if isinstance(container, g.MultiSetNode):
        return Bag(items)
    if isinstance(container, g.ListNode):
        return list(items)
    raise ScriptError('unknown_container', type(container).__name__)


def refine(edit):
    """The library's own driver loop (TreeNode.diff)."""
    while edit.valid and not edit.is_complete() and edit.tighten_bounds():
        pass
    return edit


def tighten_fully(edit, horizon=100000):
    n = 0
    while edit.tighten_bounds():
        n += 1
        if n > horizon:
            raise ScriptError('livelock', f'tighten_bounds() returned True more than {horizon} times', type(edit).__name__)
    return n


def sub_edits(e):
    g = G()
    from graphtage.xml import XMLElementEdit
    if isinstance(e, g.StringEdit):
        return list(e.edit_distance.edits())
    if isinstance(e, g.CompoundEdit):
        return list(e.edits())
    return []


def recon(e):
    """(a_side, b_side) of one edit; ABSENT where the edit has no such side."""
    g = G()
    from graphtage.xml import XMLElementEdit, XMLElement
    from graphtage.plist import PLISTNode
    if isinstance(e, g.Remove):
        return plain(e.from_node), ABSENT
    if isinstance(e, g.Insert):
        return ABSENT, plain(e.from_node)
    if isinstance(e, (g.Match, g.Replace)):
        return plain(e.from_node), plain(e.to_node)
    if isinstance(e, g.StringEdit):
        subs = [recon(s) for s in e.edit_distance.edits()]
        a = [x for x, _ in subs if x is not ABSENT]
        b = [y for _, y in subs if y is not ABSENT]
        src = e.from_node.object
        if isinstance(src, bytes):
            return bytes(a), bytes(b)
        for c in a + b:
            if not isinstance(c, str):
                raise ScriptError('string_member_not_char', repr(c), 'StringEdit')
        return ''.join(a), ''.join(b)
    if isinstance(e, g.KeyValuePairEdit):
        ka, kb = recon(e.key_edit)
        va, vb = recon(e.value_edit)
        if ABSENT in (ka, kb, va, vb):
            raise ScriptError('pair_component_absent', type(e.key_edit).__name__ + '/' + type(e.value_edit).__name__,
                              'KeyValuePairEdit')
        return Pair(ka, va), Pair(kb, vb)
    if isinstance(e, g.edits.PossibleEdits):
        best = e.best_possibility()
        if best is None:
            raise ScriptError('no_possibility', '', 'PossibleEdits')
        return recon(best)
    if isinstance(e, XMLElementEdit):
        ta, tb = recon(e.tag_edit)
        aa, ab = recon(e.attrib_edit)
        if e.text_edit is None:
            xa = xb = None
        else:
            xa, xb = recon(e.text_edit)
            xa = None if xa is ABSENT else xa
            xb = None if xb is ABSENT else xb
        ca, cb = recon(e.child_edit)
        return ({'#tag': ta, '#attrib': aa, '#text': xa, '#children': ca},
                {'#tag': tb, '#attrib': ab, '#text': xb, '#children': cb})
    if isinstance(e.from_node, PLISTNode) and isinstance(e, g.EditCollection):
        subs = list(e.edits())
        if len(subs) != 2 or not isinstance(subs[0], g.Match) or subs[0].from_node is not e.from_node:
            raise ScriptError('plist_shape', repr([type(s).__name__ for s in subs]), 'PLISTNode.edits')
        return recon(subs[1])
    if isinstance(e, g.CompoundEdit):
        subs = [recon(s) for s in e.edits()]
        a_items = [a for a, _ in subs if a is not ABSENT]
        b_items = [b for _, b in subs if b is not ABSENT]
        fn, tn = e.from_node, e.to_node
        if isinstance(fn, (g.ListNode, g.MultiSetNode, g.MappingNode)) and not isinstance(fn, XMLElement):
            return assemble(fn, a_items), assemble(tn, b_items)
        # component-wise compound over a fixed-shape node (dataclass, python object): children in order
        return ({'#class': type(fn).__name__.replace('Edited', ''), '#children': a_items},
                {'#class': type(tn).__name__.replace('Edited', ''), '#children': b_items})
    raise ScriptError('unknown_edit', type(e).__name__)


def cost_of(e):
    b = e.bounds()
    if not b.definitive():
        return None
    return int(b.upper_bound)


def canon_script(e, depth=0):
    """Canonical, comparable form of a (refined) script: class, cost, both plain sides, sub-scripts."""
    a, b = recon(e)
    bounds = e.bounds()
    subs = tuple(canon_script(s, depth + 1) for s in sub_edits(e))
    return (type(e).__name__,
            (str(bounds.lower_bound), str(bounds.upper_bound)),
            None if a is ABSENT else canon(a),
            None if b is ABSENT else canon(b),
            subs)


def flat_leaf_edits(e):
    g = G()
    if isinstance(e, g.CompoundEdit):
        for s in e.edits():
            yield from flat_leaf_edits(s)
    else:
        yield e


def site_of(exc):
    """Innermost graphtage frame of an exception -> 'file.py:function'."""
    import traceback
    tb = traceback.extract_tb(exc.__traceback__)
    for fr in reversed(tb):
        if '/graphtage/' in fr.filename:
            return f'{fr.filename.rsplit("/", 1)[-1]}:{fr.name}'
    return 'harness'

"""Runner: loads a property module, explores, classifies failures, replays, writes evidence.

Usage (through /verif/check):  ./check C16 [--tier quick|thorough] [--replay <file>] [--workers N]

Exit codes: 0 = property held on everything explored (KNOWN-FINDING lines allowed),
            1 = at least one unlisted violation (VIOLATION line printed),
            3 = the harness contradicted itself (a failure did not replay identically).
"""
import argparse
import atexit
import hashlib
import importlib
import json
import multiprocessing
import os
import shutil
import signal
import subprocess
import sys
import tempfile
import time
import traceback

VERIF = os.path.dirname(os.path.dirname(os.path.abspath(__file__)))
REPO = os.environ.get('VERIF_REPO', '/repo')

_MAIN_PID = os.getpid()


def setup_imports():
    """Make `import graphtage` resolve to $VERIF_REPO's working tree, never to stale byte code."""
    if REPO not in sys.path[:1]:
        sys.path.insert(0, REPO)
    if VERIF not in sys.path:
        sys.path.insert(1, VERIF)
    sys.dont_write_bytecode = True
    pyc = tempfile.mkdtemp(prefix='gtverif_pyc_')
    sys.pycache_prefix = pyc

    def _cleanup():
        if os.getpid() == _MAIN_PID:
            shutil.rmtree(pyc, ignore_errors=True)
    atexit.register(_cleanup)
    import logging
    logging.disable(logging.CRITICAL)  # graphtage logs warnings through the root logger; never compared
    import graphtage
    import graphtage.printer
    # progress bars go to stderr and are never compared; quiet is an explicit variable only in C05
    graphtage.printer.DEFAULT_PRINTER.quiet = True
    got = os.path.realpath(os.path.dirname(os.path.dirname(graphtage.__file__)))
    if got != os.path.realpath(REPO):
        raise SystemExit(f"HARNESS-ERROR graphtage imported from {got}, expected {REPO}")


class CaseTimeout(BaseException):
    pass


def _alarm(signum, frame):
    raise CaseTimeout()


class time_limit:
    """Watchdog for one case (main thread of a worker). A timeout is an outcome, not a hang."""

    def __init__(self, seconds):
        self.seconds = seconds

    def __enter__(self):
        self.old = signal.signal(signal.SIGALRM, _alarm)
        signal.setitimer(signal.ITIMER_REAL, self.seconds)

    def __exit__(self, *a):
        signal.setitimer(signal.ITIMER_REAL, 0)
        signal.signal(signal.SIGALRM, self.old)
        return False


def h(obj) -> str:
    return hashlib.sha1(repr(obj).encode('utf-8', 'backslashreplace')).hexdigest()[:16]


class Result:
    """What one exploration covered. Merged across shards."""

    def __init__(self):
        self.evaluations = 0
        self.outcomes = set()        # hashes of distinct non-trivial observed outcomes
        self.failures = []           # dicts: key, case, detail, order
        self.samples = []
        self.states = 0
        self.transitions = 0
        self.traces = 0
        self.extra = {}              # additional coverage keys (counts are summed, others overwritten)
        self.caps = []               # caps that were hit (a capped run is never called exhaustive)
        self.exhaustive = True

    def fail(self, key, case, detail, order=None):
        self.failures.append({'key': key, 'case': case, 'detail': str(detail)[:2000],
                              'order': order if order is not None else self.evaluations})

    def merge(self, other):
        self.evaluations += other.evaluations
        self.outcomes |= other.outcomes
        self.failures.extend(other.failures)
        for s in other.samples:
            if len(self.samples) < 8:
                self.samples.append(s)
        self.states += other.states
        self.transitions += other.transitions
        self.traces += other.traces
        for k, v in other.extra.items():
            if isinstance(v, (int, float)) and not isinstance(v, bool):
                self.extra[k] = self.extra.get(k, 0) + v
            elif isinstance(v, dict):
                d = self.extra.setdefault(k, {})
                for kk, vv in v.items():
                    if isinstance(vv, (int, float)) and not isinstance(vv, bool):
                        d[kk] = d.get(kk, 0) + vv
                    else:
                        d[kk] = vv
            elif isinstance(v, (set, frozenset)):
                self.extra[k] = set(self.extra.get(k, set())) | set(v)
            else:
                self.extra[k] = v
        self.caps.extend(other.caps)
        self.exhaustive = self.exhaustive and other.exhaustive
        return self


class Ctx:
    def __init__(self, tier, seed, workers):
        self.tier = tier
        self.seed = seed
        self.workers = workers
        self._pool = None

    @property
    def quick(self):
        return self.tier == 'quick'

    def pool(self):
        if self._pool is None:
            ctx = multiprocessing.get_context('fork')
            # one fresh forked process per task: a shard's outcome can then only depend on its own cases, so a failure
            # that needs history is reproducible by re-running that shard alone
            self._pool = ctx.Pool(self.workers, maxtasksperchild=1)
        return self._pool

    def map(self, func, items, chunksize=1):
        """Deterministic parallel map: results returned in item order; which worker ran what never matters."""
        items = list(items)
        if self.workers <= 1 or len(items) <= 1:
            return [func(i) for i in items]
        return self.pool().map(func, items, chunksize)

    def imap(self, func, items, chunksize=1):
        items = list(items)
        if self.workers <= 1 or len(items) <= 1:
            return (func(i) for i in items)
        return self.pool().imap(func, items, chunksize)

    def close(self):
        if self._pool is not None:
            self._pool.terminate()
            self._pool.join()
            self._pool = None


def run_sharded(ctx, module_name, func_name, nshards, payload=None):
    """Run module.func(shard_index, nshards, tier, payload) -> Result for every shard and merge in shard order."""
    args = [(module_name, func_name, i, nshards, ctx.tier, payload) for i in range(nshards)]
    order = list(range(nshards))
    # VERIF_SEED only changes the order in which shards are handed out, never which cases run.
    rot = ctx.seed % nshards if nshards else 0
    order = order[rot:] + order[:rot]
    res = ctx.map(_shard_entry, [args[i] for i in order])
    by_index = dict(zip(order, res))
    total = Result()
    for i in range(nshards):
        total.merge(by_index[i])
    return total


def _shard_entry(a):
    module_name, func_name, i, n, tier, payload = a
    mod = importlib.import_module(module_name)
    try:
        r = getattr(mod, func_name)(i, n, tier, payload)
        for fl in r.failures:
            fl['shard'] = {'module': module_name, 'func': func_name, 'i': i, 'n': n, 'tier': tier, 'payload': payload}
        return r
    except BaseException:
        r = Result()
        r.fail('harness_error @ shard', {'shard': i, 'of': n}, traceback.format_exc())
        return r


def load_known():
    p = os.path.join(VERIF, 'known_findings.json')
    if not os.path.exists(p):
        return []
    with open(p) as f:
        return json.load(f)['findings']


OUT_DIR = os.environ.get('VERIF_EVIDENCE_DIR')   # mutant runs write evidence/replays elsewhere


def evidence_path(pid):
    return os.path.join(OUT_DIR or os.path.join(VERIF, 'evidence'), f'{pid}.json')


def write_evidence(mod, ctx, res, wall, n_viol, known_lines):
    cov = {
        'evaluations': res.evaluations,
        'distinct_nontrivial': len(res.outcomes),
        'rule': getattr(mod, 'RULE', ''),
        'samples': res.samples[:8] if res.samples else [],
        'exhaustive': bool(res.exhaustive and not res.caps),
    }
    if res.states:
        cov['states'] = res.states
        cov['transitions'] = res.transitions
        cov['traces_validated_against_impl'] = res.traces
    if res.caps:
        cov['caps_hit'] = res.caps
    for k, v in res.extra.items():
        cov[k] = sorted(v) if isinstance(v, (set, frozenset)) else v
    cov['known_findings_seen'] = known_lines
    ev = {
        'property_id': mod.ID,
        'tier': ctx.tier,
        'seed': ctx.seed,
        'level': getattr(mod, 'LEVEL', 'model_checking'),
        'coverage': cov,
        'assumptions': list(getattr(mod, 'ASSUMPTIONS', [])),
        'wall_s': round(wall, 2),
        'violations': n_viol,
    }
    os.makedirs(os.path.dirname(evidence_path(mod.ID)), exist_ok=True)
    tmp = evidence_path(mod.ID) + '.tmp'
    with open(tmp, 'w') as f:
        json.dump(ev, f, indent=1, sort_keys=True, default=str)
        f.write('\n')
    os.replace(tmp, evidence_path(mod.ID))


def find_module(pid):
    pid = pid.upper()
    props = os.path.join(VERIF, 'props')
    for fn in sorted(os.listdir(props)):
        if fn.lower().startswith(pid.lower()) and fn.endswith('.py'):
            return 'props.' + fn[:-3]
    raise SystemExit(f"unknown property {pid}")


def replay_in_subprocess(pid, path, shard=False):
    """Re-execute one recorded case in a fresh process. Returns (reproduced: bool, class_key or None, raw)."""
    env = dict(os.environ)
    p = subprocess.run([os.path.join(VERIF, 'check'), pid, '--replay', path, '--machine'] + (['--shard'] if shard else []),
                       capture_output=True, text=True, env=env, timeout=3600)
    key = None
    for line in p.stdout.splitlines():
        if line.startswith('REPLAY-RESULT '):
            key = json.loads(line[len('REPLAY-RESULT '):])['key']
    return p.returncode, key, p.stdout + p.stderr


def replay_shard(rec):
    """Re-run the shard that produced a failure, alone, in this fresh process; returns the failure with the same key."""
    sh = rec['shard']
    m = importlib.import_module(sh['module'])
    r = getattr(m, sh['func'])(sh['i'], sh['n'], sh['tier'], sh.get('payload'))
    for fl in r.failures:
        if fl['key'] == rec['class_key']:
            return {'key': fl['key'], 'detail': fl['detail']}
    return None


def do_replay(mod, path, machine):
    with open(path) as f:
        rec = json.load(f)
    case = rec['case']
    if rec.get('history_dependent') or '--shard' in sys.argv:
        fail = replay_shard(rec)
        if machine:
            print('REPLAY-RESULT ' + json.dumps({'key': fail['key'] if fail else None}))
        if fail:
            print(f"replay (whole shard {rec['shard']['i']}/{rec['shard']['n']}, the failure depends on the cases before it): {fail['key']}\n{fail['detail']}")
            known = {k['class_key'] for k in load_known() if k['property'] == mod.ID and k.get('status') == 'open'}
            if fail['key'] in known:
                print(f"KNOWN-FINDING: property={mod.ID} {fail['key']}")
                return 0
            print(f"VIOLATION property={mod.ID} replay={path}")
            return 1
        print("replay: shard passes")
        return 0
    try:
        with time_limit(getattr(mod, 'REPLAY_TIMEOUT', 120)):
            fail = mod.replay(case)
    except CaseTimeout:
        fail = {'key': rec.get('class_key', 'timeout'), 'detail': 'timeout during replay'}
    if machine:
        print('REPLAY-RESULT ' + json.dumps({'key': fail['key'] if fail else None}))
    if fail:
        print(f"replay: case fails: {fail['key']}\n{fail.get('detail', '')}")
        known = {k['class_key'] for k in load_known() if k['property'] == mod.ID and k.get('status') == 'open'}
        if fail['key'] in known:
            print(f"KNOWN-FINDING: property={mod.ID} {fail['key']}")
            return 0
        print(f"VIOLATION property={mod.ID} replay={path}")
        return 1
    print("replay: case passes")
    return 0


def main(argv=None):
    ap = argparse.ArgumentParser()
    ap.add_argument('property')
    ap.add_argument('--tier', default=os.environ.get('VERIF_TIER') or 'quick', choices=['quick', 'thorough'])
    ap.add_argument('--replay')
    ap.add_argument('--machine', action='store_true')
    ap.add_argument('--shard', action='store_true', help='with --replay: re-run the whole recorded shard (history-dependent failures)')
    ap.add_argument('--workers', type=int, default=int(os.environ.get('VERIF_WORKERS', '0')) or (os.cpu_count() or 4))
    ap.add_argument('--no-confirm', action='store_true', help='skip fresh-process replay of failures (development)')
    args = ap.parse_args(argv)
    try:
        seed = int(os.environ.get('VERIF_SEED', '0') or 0)
    except ValueError:
        seed = 0
    setup_imports()
    modname = find_module(args.property)
    mod = importlib.import_module(modname)
    if args.replay:
        return do_replay(mod, args.replay, args.machine)

    ctx = Ctx(args.tier, seed, args.workers)
    t0 = time.time()
    limit = int(os.environ.get('VERIF_RUN_LIMIT', '0')) or (3600 if args.tier == 'quick' else 6 * 3600)
    try:
        with time_limit(limit):
            res = mod.run(ctx)
    except CaseTimeout:
        print(f"HARNESS-TIMEOUT property={mod.ID}: exploration exceeded {limit}s (a case escaped its watchdog)")
        ctx.close()
        return 3
    finally:
        ctx.close()
    wall = time.time() - t0

    known = {k['class_key']: k for k in load_known() if k['property'] == mod.ID}
    by_key = {}
    for fl in res.failures:
        by_key.setdefault(fl['key'], []).append(fl)
    known_lines = []
    violations = []
    for key in sorted(by_key):
        fls = sorted(by_key[key], key=lambda x: (x['order'], json.dumps(x['case'], sort_keys=True, default=str)))
        first = fls[0]
        if key in known and known[key].get('status') == 'open':
            line = f"KNOWN-FINDING: property={mod.ID} {key} witness={json.dumps(first['case'], default=str)[:300]} ({len(fls)} cases)"
            print(line)
            known_lines.append({'class_key': key, 'cases': len(fls)})
        else:
            violations.append((key, first, len(fls)))
    for key, k in known.items():
        if k.get('status') == 'open' and key not in by_key and ctx.tier in k.get('tiers', ['quick', 'thorough']):
            sys.stderr.write(f"STALE-FINDING property={mod.ID} {key}: listed as open but not observed in this run\n")

    rc = 0
    shown = 0
    nondet = False
    for key, first, n in violations:
        rdir = os.path.join(OUT_DIR, 'replays', mod.ID) if OUT_DIR else os.path.join(VERIF, 'replays', mod.ID)
        os.makedirs(rdir, exist_ok=True)
        path = os.path.join(rdir, h(key) + '.json')
        rec = {'property': mod.ID, 'class_key': key, 'case': first['case'], 'detail': first['detail'],
               'cases_in_class': n, 'tier': ctx.tier, 'seed': seed, 'shard': first.get('shard')}
        with open(path, 'w') as f:
            json.dump(rec, f, indent=1, default=str)
        confirmed = True
        if not args.no_confirm and shown < 6 and not key.startswith('harness_error') and hasattr(mod, 'replay'):
            r1 = replay_in_subprocess(mod.ID, path)
            r2 = replay_in_subprocess(mod.ID, path)
            if r1[1] != key or r2[1] != key:
                # Not reproducible from a fresh process on its own. Either the harness is nondeterministic, or the
                # library carries state from one comparison to the next. Decide by re-running the whole shard (fresh
                # process, same cases in the same order) twice.
                h1 = h2 = (None, None, '')
                if first.get('shard'):
                    h1 = replay_in_subprocess(mod.ID, path, shard=True)
                    h2 = replay_in_subprocess(mod.ID, path, shard=True)
                if h1[1] == key and h2[1] == key:
                    rec['history_dependent'] = True
                    rec['note'] = ('the case passes when run alone in a fresh process and fails, reproducibly, after the '
                                   'preceding cases of its shard: the library carries state between comparisons')
                    with open(path, 'w') as f:
                        json.dump(rec, f, indent=1, default=str)
                    first = dict(first, detail='[history-dependent: passes alone, fails after the preceding cases] ' + first['detail'])
                else:
                    nondet = True
                    confirmed = False
                    print(f"HARNESS-NONDETERMINISM property={mod.ID} class={key} replay1={r1[1]} replay2={r2[1]} file={path}")
                    sys.stderr.write(r1[2][-1500:] + '\n')
        if confirmed:
            if shown < 25:
                print(f"VIOLATION property={mod.ID} replay={path}   [{key}] ({n} cases) {first['detail'][:300]!r}")
            shown += 1
            rc = 1
    if nondet:
        rc = 3
    write_evidence(mod, ctx, res, wall, len(violations), known_lines)
    cap = f" caps={res.caps}" if res.caps else ''
    print(f"{mod.ID} tier={ctx.tier} seed={seed} evaluations={res.evaluations} distinct_outcomes={len(res.outcomes)} "
          f"states={res.states} transitions={res.transitions} failures={len(res.failures)} "
          f"violation_classes={len(violations)} known_classes={len(known_lines)} wall={wall:.1f}s{cap}")
    if len(res.outcomes) < 2 and res.evaluations > 1:
        print(f"HARNESS-VACUOUS property={mod.ID}: fewer than two distinct outcomes")
        rc = rc or 3
    return rc


if __name__ == '__main__':
    sys.exit(main())

"""E3: stateless choice-point exploration with deviation bounding (iterative: bound 0, 1, 2, ...).

The harness body calls chooser.choose(n, label) wherever the environment has n possible answers. Answer 0 is the
default; any other answer is a deviation. An execution replays a prefix of recorded choices (a missing or out-of-range
choice point while replaying is a hard harness error) and answers 0 afterwards. All executions run to completion.
"""


class ReplayDivergence(Exception):
    pass


class Chooser:
    def __init__(self, prefix=()):
        self.prefix = list(prefix)
        self.trace = []      # (choice, n, label)

    def choose(self, n, label=None):
        i = len(self.trace)
        if n <= 0:
            raise ReplayDivergence(f'choice point {i} ({label}) has no alternatives')
        if i < len(self.prefix):
            c = self.prefix[i]
            if c >= n:
                raise ReplayDivergence(f'choice point {i} ({label}): recorded {c} but only {n} alternatives')
        else:
            c = 0
        self.trace.append((c, n, label))
        return c

    def choices(self):
        return [t[0] for t in self.trace]

    def deviations(self):
        return sum(1 for t in self.trace if t[0] != 0)


def explore(run, bound, max_executions=None):
    """Yield (choices, result) for every execution with at most `bound` deviations (bound=None: the full tree).

    run(chooser) -> result. Executions are enumerated depth first; each is generated exactly once because an
    alternative is only pushed for choice points *after* the replayed prefix.
    """
    stack = [[]]
    count = 0
    while stack:
        prefix = stack.pop()
        ch = Chooser(prefix)
        result = run(ch)
        if len(ch.trace) < len(prefix):
            raise ReplayDivergence(f'execution ended after {len(ch.trace)} choice points, prefix has {len(prefix)}')
        count += 1
        yield ch.choices(), result
        if max_executions is not None and count >= max_executions:
            return
        devs = sum(1 for c in prefix if c != 0)
        for i in range(len(ch.trace) - 1, len(prefix) - 1, -1):
            c, n, _ = ch.trace[i]
            if bound is not None and devs + 1 > bound:
                continue
            base = [t[0] for t in ch.trace[:i]]
            for alt in range(n - 1, 0, -1):
                stack.append(base + [alt])

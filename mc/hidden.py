"""Ownership of hidden order: an explorer-controlled replacement for the builtin `set` (iteration order) and for
`id` (tie-break outcome), installed by shadowing the names in the module globals of graphtage modules. Python resolves
module globals before builtins, so no source change is needed; removing the shadow restores the builtin.
"""
import itertools
import math

CH = None          # the current mc.explore.Chooser, or None (=> insertion order / real id)
STATS = {'set_iterations': 0, 'set_choice_points': 0, 'id_calls': 0, 'capped': 0}
MAX_PERMUTED = 5


class ControlledSet(set):
    """A set whose iteration order is chosen by the explorer (every permutation of up to MAX_PERMUTED elements)."""

    def __init__(self, iterable=()):
        super().__init__()
        self._order = []
        for x in (iterable._order if isinstance(iterable, ControlledSet) else iterable):
            self.add(x)

    def add(self, x):
        if not set.__contains__(self, x):
            set.add(self, x)
            self._order.append(x)

    def remove(self, x):
        set.remove(self, x)
        self._drop(x)

    def discard(self, x):
        if set.__contains__(self, x):
            self.remove(x)

    def _drop(self, x):
        for i, y in enumerate(self._order):
            if y is x or y == x:
                del self._order[i]
                return

    def pop(self):
        x = self._order[-1]
        self.remove(x)
        return x

    def clear(self):
        set.clear(self)
        self._order = []

    def update(self, *others):
        for o in others:
            for x in (o._order if isinstance(o, ControlledSet) else o):
                self.add(x)

    def __ior__(self, other):
        self.update(other)
        return self

    def __or__(self, other):
        r = ControlledSet(self._order)
        r.update(other)
        return r

    def __sub__(self, other):
        return ControlledSet(x for x in self._order if x not in other)

    def __and__(self, other):
        return ControlledSet(x for x in self._order if x in other)

    def copy(self):
        return ControlledSet(self._order)

    def __iter__(self):
        items = list(self._order)
        n = len(items)
        STATS['set_iterations'] += 1
        if CH is None or n < 2:
            return iter(items)
        if n > MAX_PERMUTED:
            STATS['capped'] += 1
            return iter(items)
        STATS['set_choice_points'] += 1
        k = CH.choose(math.factorial(n), f'set-iteration-order({n})')
        perm = nth_permutation(items, k)
        return iter(perm)


def nth_permutation(items, k):
    items = list(items)
    out = []
    for i in range(len(items), 0, -1):
        f = math.factorial(i - 1)
        j, k = divmod(k, f)
        out.append(items.pop(j))
    return out


_ranks = {}
_keep = []


def controlled_id(obj):
    """Consistent fake addresses: the explorer decides where each newly seen object lands among the known ones."""
    STATS['id_calls'] += 1
    if CH is None:
        return id(obj)
    key = id(obj)
    if key not in _ranks:
        _keep.append(obj)
        n = len(_ranks)
        pos = CH.choose(n + 1, 'id-rank') if n < 4 else n
        # shift ranks >= pos
        real = n - pos       # choice 0 = allocated after everything else (largest address)
        for k2 in _ranks:
            if _ranks[k2] >= real:
                _ranks[k2] += 1
        _ranks[key] = real
    return _ranks[key]


def reset_ids():
    _ranks.clear()
    _keep.clear()


SHADOW_SET_IN = ('graphtage.graphtage', 'graphtage.printer', 'graphtage.formatter', 'graphtage.dataclasses',
                 'graphtage.multiset', 'graphtage.sequences', 'graphtage.edits', 'graphtage.levenshtein',
                 'graphtage.tree', 'graphtage.json', 'graphtage.yaml', 'graphtage.xml', 'graphtage.csv',
                 'graphtage.plist', 'graphtage.utils')
SHADOW_ID_IN = ('graphtage.bounds',)


def install():
    import importlib
    for name in SHADOW_SET_IN:
        m = importlib.import_module(name)
        m.__dict__['set'] = ControlledSet
    for name in SHADOW_ID_IN:
        m = importlib.import_module(name)
        m.__dict__['id'] = controlled_id


def uninstall():
    import importlib
    for name in SHADOW_SET_IN:
        m = importlib.import_module(name)
        m.__dict__.pop('set', None)
    for name in SHADOW_ID_IN:
        m = importlib.import_module(name)
        m.__dict__.pop('id', None)

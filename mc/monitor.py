"""Monitors for the Bounded protocol (bounds()/tighten_bounds()), attached from outside to the real classes.

passive: records only what the code itself asks for.
active:  additionally reads bounds() right before and after every outermost tighten_bounds() call on an object
         (a legal client history), so the progress / strict-shrink rules apply to every step.

Rules checked per object (invalid objects expose Range() by design and are dropped from that point):
  R1 never widens      : each exposed range is contained in the previously exposed one
  R2 progress          : tighten_bounds() -> True  => the range exposed after is a strict sub-range of the one before
  R3 no progress       : tighten_bounds() -> False => the range exposed after is a single value
  R4 sound             : every exposed range contains the object's final cost (evaluated by finish())
  R5 terminates        : the number of True results of an object is bounded by its initial width (+ slack)
"""
import importlib
import pkgutil

_INSTALLED = None


class Violation(Exception):
    pass


class Monitor:
    def __init__(self):
        self.active = False
        self.enabled = False
        self.objs = {}          # id -> record
        self.violations = []    # (rule, class name, detail)
        self.steps = 0
        self.exposures = 0
        self.by_class = {}

    # ---- lifecycle ---------------------------------------------------------------------------------------------
    def reset(self, active):
        self.active = active
        self.objs = {}
        self.violations = []
        self.steps = 0
        self.exposures = 0
        self.enabled = True

    def stop(self):
        self.enabled = False

    def rec(self, obj):
        r = self.objs.get(id(obj))
        if r is None:
            r = {'obj': obj, 'cls': type(obj).__name__, 'ranges': [], 'trues': 0, 'dead': False, 'depth': 0,
                 'first': None, 'mid': False, 'trues_since': 0, 'false_pending': False}
            self.objs[id(obj)] = r
        return r

    def violate(self, rule, r, detail):
        if len(self.violations) < 20:
            self.violations.append((rule, r['cls'], detail))

    # ---- observations ------------------------------------------------------------------------------------------
    def valid(self, obj):
        try:
            v = getattr(obj, '_valid', True)
            return bool(v)
        except Exception:  # noqa
            return True

    def on_bounds(self, obj, rng):
        r = self.rec(obj)
        if r['dead']:
            return
        if not self.valid(obj):
            r['dead'] = True
            return
        self.exposures += 1
        lo, hi = rng.lower_bound, rng.upper_bound
        if r['ranges']:
            plo, phi = r['ranges'][-1]
            if lo < plo or hi > phi:
                self.violate('R1 widened', r, f'[{plo}, {phi}] then [{lo}, {hi}]')
            if r['trues_since'] and (lo, hi) == (plo, phi):
                self.violate('R2 progress without strict shrink', r,
                             f'[{plo}, {phi}] exposed before and after {r["trues_since"]} step(s) that reported progress')
        else:
            r['first'] = (lo, hi)
        if r['false_pending'] and not rng.definitive():
            self.violate('R3 no progress but not a single value', r, f'[{lo}, {hi}] exposed after tighten_bounds() -> False')
        r['trues_since'] = 0
        r['false_pending'] = False
        if not r['ranges'] or r['ranges'][-1] != (lo, hi):
            r['ranges'].append((lo, hi))
            if len(r['ranges']) > 2:
                r['mid'] = True

    def after_tighten(self, obj, r, before, result):
        if r['dead']:
            return
        if not self.valid(obj):
            r['dead'] = True
            return
        self.steps += 1
        if result:
            r['trues'] += 1
            r['trues_since'] += 1
            first = r['first']
            if first is not None:
                try:
                    width = first[1] - first[0]
                except ValueError:      # (-inf, +inf): no a-priori width, R5 is left to the harness horizon
                    width = None
                if width is not None and r['trues'] > width + 2:
                    self.violate('R5 livelock', r, f'{r["trues"]} progress reports, initial width {width}')
        else:
            r['false_pending'] = True
        if self.active:
            type(obj).bounds(obj)     # exposure right after the step: R1/R2/R3 are evaluated by on_bounds

    def finish(self, tighten=True, horizon=100000):
        """R4: tighten every surviving object to the end and check that all exposed ranges contain the final cost."""
        self.enabled = False
        checked = 0
        for r in list(self.objs.values()):
            cls = r['cls']
            st = self.by_class.setdefault(cls, {'objects': 0, 'mid_refinement': 0, 'steps': 0})
            st['objects'] += 1
            st['steps'] += r['trues']
            if r['mid']:
                st['mid_refinement'] += 1
            if r['dead'] or not r['ranges']:
                continue
            obj = r['obj']
            if not self.valid(obj):
                continue
            try:
                n = 0
                while obj.tighten_bounds():
                    n += 1
                    if n > horizon:
                        self.violate('R5 livelock', r, 'final tightening did not end')
                        break
                fb = obj.bounds()
            except Exception as e:  # noqa
                # exceptions while finishing are reported by C05 (call-order independence), not here
                continue
            if not self.valid(obj):
                continue
            if not fb.definitive():
                self.violate('R3 no progress but not a single value', r, f'final bounds {fb}')
                continue
            c = fb.upper_bound
            checked += 1
            for lo, hi in r['ranges']:
                if c < lo or c > hi:
                    self.violate('R4 final cost outside an exposed range', r, f'exposed [{lo}, {hi}], final cost {c}')
                    break
            else:
                # the final cost of a compound edit is the cost of the script it lists
                try:
                    sc = script_cost(obj)
                except Exception:  # noqa
                    sc = None
                if sc is not None and sc != c:
                    for lo, hi in r['ranges']:
                        if sc < lo or sc > hi:
                            self.violate('R4 cost of the final script outside an exposed range', r,
                                         f'exposed [{lo}, {hi}], listed sub-edits cost {sc}')
                            break
        return checked


MON = Monitor()


def script_cost(edit):
    """Sum of the definitive costs of the leaf edits an edit lists (None for non-edits / unfinished leaves)."""
    from mc.script import sub_edits, G
    g = G()
    if not isinstance(edit, g.Edit):
        return None
    subs = sub_edits(edit) if isinstance(edit, (g.CompoundEdit, g.StringEdit)) else []
    if not subs:
        n = 0
        while edit.tighten_bounds():
            n += 1
            if n > 100000:
                return None
        b = edit.bounds()
        return b.upper_bound if b.definitive() else None
    total = 0
    for s in subs:
        c = script_cost(s)
        if c is None:
            return None
        total += c
    return total


def bounded_classes():
    """Every class in graphtage.* that implements the Bounded protocol and is reachable from a diff."""
    import graphtage
    out = []
    seen = set()
    mods = [graphtage]
    for m in pkgutil.iter_modules(graphtage.__path__):
        if m.name in ('__main__',):
            continue
        try:
            mods.append(importlib.import_module('graphtage.' + m.name))
        except Exception:  # noqa
            pass
    for mod in mods:
        for name, obj in vars(mod).items():
            if isinstance(obj, type) and obj.__module__.startswith('graphtage') and obj not in seen:
                if callable(getattr(obj, 'tighten_bounds', None)) and callable(getattr(obj, 'bounds', None)):
                    seen.add(obj)
                    out.append(obj)
    return out


def install():
    """Wrap bounds()/tighten_bounds() where they are defined (once per process)."""
    global _INSTALLED
    if _INSTALLED:
        return _INSTALLED
    wrapped = []
    for cls in bounded_classes():
        if getattr(cls, '_is_protocol', False) or cls.__name__ in ('Bounded', 'Edit', 'CompoundEdit'):
            continue
        d = cls.__dict__
        if 'bounds' in d and callable(d['bounds']) and not getattr(d['bounds'], '_gtverif', False):
            _wrap_bounds(cls, d['bounds'])
        if 'tighten_bounds' in d and callable(d['tighten_bounds']) and not getattr(d['tighten_bounds'], '_gtverif', False):
            _wrap_tighten(cls, d['tighten_bounds'])
        wrapped.append(cls.__name__)
    _INSTALLED = wrapped
    return wrapped


def _wrap_bounds(cls, orig):
    def bounds(self, *a, **k):
        if not MON.enabled:
            return orig(self, *a, **k)
        r = MON.rec(self)
        r['depth'] += 1
        try:
            rng = orig(self, *a, **k)
        finally:
            r['depth'] -= 1
        # only calls coming from outside the object are exposures; self.bounds()/super().bounds() made while one of
        # the object's own bounds()/tighten_bounds() is running are intermediate values
        if r['depth'] == 0 and rng is not None:
            MON.on_bounds(self, rng)
        return rng
    bounds._gtverif = True
    bounds.__wrapped__ = orig
    bounds.__name__ = 'bounds'
    bounds.__qualname__ = getattr(orig, '__qualname__', 'bounds')
    setattr(cls, 'bounds', bounds)


def _wrap_tighten(cls, orig):
    def tighten_bounds(self, *a, **k):
        if not MON.enabled:
            return orig(self, *a, **k)
        r = MON.rec(self)
        outer = r['depth'] == 0
        before = None
        if outer and MON.active and not r['dead']:
            before = type(self).bounds(self)      # recorded as an exposure by the bounds wrapper
        r['depth'] += 1
        try:
            result = orig(self, *a, **k)
        finally:
            r['depth'] -= 1
        if outer:
            MON.after_tighten(self, r, before, result)
        return result
    tighten_bounds._gtverif = True
    tighten_bounds.__wrapped__ = orig
    tighten_bounds.__name__ = 'tighten_bounds'
    tighten_bounds.__qualname__ = getattr(orig, '__qualname__', 'tighten_bounds')
    setattr(cls, 'tighten_bounds', tighten_bounds)

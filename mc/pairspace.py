"""The shared space of (tree A, tree B, build options) cases used by C01, C03, C04, C07(leg 3), C10.

A case is a JSON-able dict {'kind', 'a', 'b', 'opt': [dict_strategy, list_mode]}; `build(kind, value, opt)` turns a
description into a real graphtage tree. Families are enumerated completely, simplest first; options that cannot
influence the trees (no dict / no list anywhere in the pair) are enumerated once instead of three times - the trees
built are identical objects structurally, so nothing is skipped.
"""
import itertools
import os
import tempfile

from mc.gen import DocSpace, OPTION_SETS, DICT_STRATEGIES, LIST_MODES, build_options, strings

# ---- builders ----------------------------------------------------------------------------------------------------
_TMP = None


def tmpdir():
    global _TMP
    if _TMP is None or _TMP[0] != os.getpid():
        d = tempfile.mkdtemp(prefix='gtverif_files_')
        _TMP = (os.getpid(), d)
        import atexit
        import shutil
        pid = os.getpid()
        atexit.register(lambda: os.getpid() == pid and shutil.rmtree(d, ignore_errors=True))
    return _TMP[1]


def xml_element(desc):
    import xml.etree.ElementTree as ET
    el = ET.Element(desc['tag'], dict(desc.get('attrib') or {}))
    if desc.get('text') is not None:
        el.text = desc['text']
    for c in desc.get('children') or []:
        el.append(xml_element(c))
    return el


class Foo:
    def __init__(self, x, y):
        self.x = x
        self.y = y


class Bar:
    def __init__(self, x):
        self.x = x


def pyobj(desc):
    if isinstance(desc, dict) and '#Foo' in desc:
        return Foo(pyobj(desc['#Foo'][0]), pyobj(desc['#Foo'][1]))
    if isinstance(desc, dict) and '#Bar' in desc:
        return Bar(pyobj(desc['#Bar'][0]))
    if isinstance(desc, list):
        return [pyobj(x) for x in desc]
    return desc


def build(kind, value, opt):
    import graphtage
    from graphtage import json as gjson
    options = build_options(tuple(opt))
    if kind == 'json':
        return gjson.build_tree(value, options)
    if kind == 'pydict':
        return gjson.build_tree({k: v for k, v in value}, options)
    if kind == 'multiset':
        return graphtage.MultiSetNode([gjson.build_tree(v, options) for v in value])
    if kind == 'string':
        return graphtage.StringNode(value)
    if kind == 'xml':
        from graphtage import xml as gxml
        return gxml.build_tree(xml_element(value), options)
    if kind == 'csv':
        import csv as pycsv
        from graphtage import csv as gcsv
        p = os.path.join(tmpdir(), 'case.csv')
        with open(p, 'w', newline='') as f:
            pycsv.writer(f).writerows(value)
        return gcsv.build_tree(p, options)
    if kind == 'plist':
        import plistlib
        from graphtage import plist as gplist
        p = os.path.join(tmpdir(), 'case.plist')
        with open(p, 'wb') as f:
            f.write(plistlib.dumps(value))
        return gplist.build_tree(p, options)
    if kind == 'yaml':
        import yaml
        from graphtage import yaml as gyaml
        p = os.path.join(tmpdir(), 'case.yml')
        with open(p, 'w', encoding='utf-8') as f:
            f.write(yaml.safe_dump(value, allow_unicode=True))
        return gyaml.build_tree(p, options)
    if kind == 'pyobj':
        from graphtage import pydiff
        return pydiff.build_tree(pyobj(value), options)
    raise ValueError(kind)


def expected_plain(kind, value):
    """The plain value the tree stands for, computed from the case description only."""
    from mc.gen import Bag
    if kind == 'json' or kind == 'string' or kind == 'plist' or kind == 'yaml':
        return value
    if kind == 'pydict':
        return {k: v for k, v in value}
    if kind == 'multiset':
        return Bag(value)
    if kind == 'xml':
        return {'#tag': value['tag'], '#attrib': dict(value.get('attrib') or {}), '#text': value.get('text'),
                '#children': [expected_plain('xml', c) for c in value.get('children') or []]}
    if kind == 'csv':
        import csv as pycsv
        import io
        buf = io.StringIO()
        pycsv.writer(buf).writerows(value)
        rows = list(pycsv.reader(io.StringIO(buf.getvalue())))
        return [[_csv_cell(c) for c in row] for row in rows]
    return None  # pyobj: no independent expectation; the two builds are compared with plain() of the trees


def _csv_cell(c):
    return c


# ---- option relevance --------------------------------------------------------------------------------------------
def has_dict(v):
    if isinstance(v, dict):
        return True
    if isinstance(v, (list, tuple)):
        return any(has_dict(x) for x in v)
    return False


def has_list(v):
    if isinstance(v, (list, tuple)):
        return True
    if isinstance(v, dict):
        return any(has_list(x) for x in v.values())
    return False


def relevant_options(a, b, dicts=None, lists=None):
    d = (has_dict(a) or has_dict(b)) if dicts is None else dicts
    l = (has_list(a) or has_list(b)) if lists is None else lists
    for ds in (DICT_STRATEGIES if d else ('auto',)):
        for lm in (LIST_MODES if l else ('on',)):
            yield (ds, lm)


# ---- families ----------------------------------------------------------------------------------------------------
COMMON_SCALARS = (1, 2, 'ab', None)
COMMON_KEYS = ('a', 'b')


def fam_docs(budget, scalars=COMMON_SCALARS, keys=COMMON_KEYS, depth=3):
    ds = DocSpace(scalars, keys, depth)
    for a, b in ds.pairs(budget):
        for opt in relevant_options(a, b):
            yield {'kind': 'json', 'a': a, 'b': b, 'opt': list(opt)}


def fam_lists(maxlen, symbols):
    seqs = []
    for n in range(0, maxlen + 1):
        seqs.extend(list(t) for t in itertools.product(symbols, repeat=n))
    for a in seqs:
        for b in seqs:
            for lm in LIST_MODES:
                yield {'kind': 'json', 'a': a, 'b': b, 'opt': ['auto', lm]}


def fam_lists_2level(inner_maxlen, outer_maxlen, symbols=(1, 2)):
    inner = []
    for n in range(0, inner_maxlen + 1):
        inner.extend(list(t) for t in itertools.product(symbols, repeat=n))
    outer = []
    for n in range(0, outer_maxlen + 1):
        outer.extend(list(t) for t in itertools.product(inner, repeat=n))
    for a in outer:
        for b in outer:
            for lm in LIST_MODES:
                yield {'kind': 'json', 'a': a, 'b': b, 'opt': ['auto', lm]}


def fam_long_lists(maxlen):
    """Wide but narrow: one symbol repeated up to maxlen times against a short list (sizes and costs that cross the
    8-bit boundaries of any narrow accumulator)."""
    for sym in (None, '', 1):
        shorts = ([], [sym], [sym, 1], [2])
        for n in list(range(0, 12)) + list(range(250, maxlen + 1)):
            for b in shorts:
                yield {'kind': 'json', 'a': [sym] * n, 'b': list(b), 'opt': ['auto', 'on']}
                if n % 7 == 0 or 254 <= n <= 258:
                    yield {'kind': 'json', 'a': list(b), 'b': [sym] * n, 'opt': ['auto', 'on']}
                    yield {'kind': 'json', 'a': [sym] * n, 'b': list(b), 'opt': ['auto', 'off']}


def fam_dicts(keys, values):
    docs = []
    for combo in itertools.product((None,) + tuple(range(len(values))), repeat=len(keys)):
        docs.append({k: values[i] for k, i in zip(keys, combo) if i is not None})
    for a in docs:
        for b in docs:
            for ds in DICT_STRATEGIES:
                yield {'kind': 'json', 'a': a, 'b': b, 'opt': [ds, 'on']}


def fam_mixed_keys(keys=(2, '1a', '5', 10)):
    """Mappings whose keys mix ints and strings (reachable from YAML, pickle and the Python API)."""
    subsets = []
    for n in range(0, len(keys) + 1):
        subsets.extend(itertools.combinations(keys, n))
    for ka in subsets:
        for kb in subsets:
            a = [[k, f'v{i}'] for i, k in enumerate(ka)]
            b = [[k, f'w{i}'] for i, k in enumerate(kb)]
            for ds in DICT_STRATEGIES:
                yield {'kind': 'pydict', 'a': a, 'b': b, 'opt': [ds, 'on']}


def fam_multisets(values, maxsize):
    bags = []
    for n in range(0, maxsize + 1):
        bags.extend(list(t) for t in itertools.combinations_with_replacement(values, n))
    for a in bags:
        for b in bags:
            yield {'kind': 'multiset', 'a': a, 'b': b, 'opt': ['auto', 'on']}


def xml_elements(tier):
    if tier == 'quick':
        leaves = [{'tag': 'a'}, {'tag': 'b', 'attrib': {'k': 'v'}}]
        tags, attribs, texts = ('a', 'b'), ({}, {'k': 'v'}), (None, 't', ' t ')
        maxkids = 2
    else:
        leaves = [{'tag': 'a'}, {'tag': 'b', 'attrib': {'k': 'v'}}, {'tag': 'a', 'text': 'u'}]
        tags, attribs, texts = ('a', 'b'), ({}, {'k': 'v'}, {'k': 'w', 'j': 'v'}), (None, 't', 'u', ' t ')
        maxkids = 2
    kidlists = []
    for n in range(0, maxkids + 1):
        kidlists.extend(list(t) for t in itertools.product(leaves, repeat=n))
    out = []
    for tag in tags:
        for at in attribs:
            for tx in texts:
                for kids in kidlists:
                    d = {'tag': tag}
                    if at:
                        d['attrib'] = dict(at)
                    if tx is not None:
                        d['text'] = tx
                    if kids:
                        d['children'] = kids
                    out.append(d)
    return out


def fam_xml(tier):
    els = xml_elements(tier)
    for a in els:
        for b in els:
            for ds in DICT_STRATEGIES:
                yield {'kind': 'xml', 'a': a, 'b': b, 'opt': [ds, 'on']}


def csv_tables(cells, maxcols, maxrows):
    rows = []
    for n in range(0, maxcols + 1):
        rows.extend(list(t) for t in itertools.product(cells, repeat=n))
    tables = []
    for n in range(0, maxrows + 1):
        tables.extend(list(t) for t in itertools.product(rows, repeat=n))
    return tables


def fam_csv(tier):
    tables = csv_tables(('a', 'b'), 2, 2) if tier == 'quick' else csv_tables(('a', 'b', ''), 2, 2)
    for a in tables:
        for b in tables:
            for lm in LIST_MODES:
                yield {'kind': 'csv', 'a': a, 'b': b, 'opt': ['auto', lm]}


def fam_plist(budget):
    """Documents loaded from plist files: the root is wrapped in a PLISTNode whose edit is an EditCollection."""
    ds = DocSpace((1, 'ab', True), ('a', 'b'), 3)
    for a, b in ds.pairs(budget):
        for opt in relevant_options(a, b):
            yield {'kind': 'plist', 'a': a, 'b': b, 'opt': list(opt)}


def fam_plist_renamed(tier):
    """plist root mappings of two items with renamed keys and values of very different length (the a-priori cap of the
    wrapping EditCollection, from-size + to-size + 1, lies below the sum of its parts' upper bounds)."""
    keys = ('w', 'h', 'x', 'title')
    vals = ('0', '1', 'Copyright 2020 Example Corp.') if tier != 'quick' else ('0', 'Copyright 2020 Example Corp.')
    docs = []
    for k1, k2 in itertools.combinations(keys, 2):
        for v1 in vals:
            for v2 in vals:
                docs.append({k1: v1, k2: v2})
    for a in docs:
        for b in docs:
            for ds in DICT_STRATEGIES:
                yield {'kind': 'plist', 'a': a, 'b': b, 'opt': [ds, 'on']}


def fam_xml_attrs(tier):
    """Elements whose attributes (multi-character names and values) are renamed / changed at the document element and
    one and two levels below it."""
    attribs = ({}, {'id': 'hello world'}, {'name': 'hello there'}, {'id': 'hello', 'name': 'x'})
    els = []
    for ar in attribs:
        for ac in attribs:
            els.append({'tag': 'r', 'attrib': dict(ar), 'children': [{'tag': 'c', 'attrib': dict(ac)}]})
    for ac in attribs:
        for ag in attribs:
            els.append({'tag': 'r', 'children': [{'tag': 'c', 'attrib': dict(ac), 'children': [{'tag': 'g', 'attrib': dict(ag)}]}]})
    for e in els:
        strip_empty_attrib(e)
    for a in els:
        for b in els:
            for ds in DICT_STRATEGIES:
                yield {'kind': 'xml', 'a': a, 'b': b, 'opt': [ds, 'on']}


def strip_empty_attrib(e):
    if not e.get('attrib'):
        e.pop('attrib', None)
    for c in e.get('children') or []:
        strip_empty_attrib(c)


def fam_strings(alphabet, maxlen):
    ss = list(strings(alphabet, maxlen))
    for a in ss:
        for b in ss:
            yield {'kind': 'string', 'a': a, 'b': b, 'opt': ['auto', 'on']}


def fam_pyobj(tier):
    vals = [1, 2, 'ab', [1]]
    objs = [{'#Foo': [x, y]} for x in vals for y in vals] + [{'#Bar': [x]} for x in vals] + \
           [{'#Foo': [{'#Bar': [1]}, 2]}, [{'#Bar': [1]}, {'#Bar': [2]}]]
    for a in objs:
        for b in objs:
            for ds in DICT_STRATEGIES:
                yield {'kind': 'pyobj', 'a': a, 'b': b, 'opt': [ds, 'on']}


def families(tier, docs_budget=None):
    """(name, generator) in a fixed order."""
    q = tier == 'quick'
    return [
        ('docs', fam_docs(docs_budget or (5 if q else 6))),
        ('lists_leaf', fam_lists(4 if q else 5, (1, 2))),
        ('lists_nested', fam_lists(3 if q else 4, ([1], [2]))),
        ('lists_mixed', fam_lists(3 if q else 4, (1, [1], None))),
        # numbers that are equal as Python values but differ as text / type (1 == 1.0 == True): node equality and edit
        # cost disagree on them
        ('lists_numeric', fam_lists(3, (1, 1.0, 2) if q else (1, 1.0, 2, True))),
        ('lists_2level', fam_lists_2level(2, 2) if q else fam_lists_2level(2, 2, (1, 2, None))),
        ('long_lists', fam_long_lists(262 if q else 300)),
        ('dicts', fam_dicts(('a', 'ab', 'c'), (1, 2))),
        ('dicts_nested', fam_dicts(('a', 'ab'), ([1], [1, 2], {'a': 1}))),
        ('dicts_mixed_keys', fam_mixed_keys()),
        ('multisets', fam_multisets((1, 2, 'ab'), 3)),
        ('multisets_nested', fam_multisets((1, [1], [2]), 2 if q else 3)),
        ('xml', fam_xml(tier)),
        ('csv', fam_csv(tier)),
        ('plist', fam_plist(4 if q else 5)),
        ('plist_renamed', fam_plist_renamed(tier)),
        ('xml_attrs', fam_xml_attrs(tier)),
        ('strings', fam_strings('ab', 3 if q else 4)),
        ('pyobj', fam_pyobj(tier)),
    ]


def all_cases(tier, docs_budget=None):
    idx = 0
    for name, gen in families(tier, docs_budget):
        for case in gen:
            case['fam'] = name
            yield idx, case
            idx += 1


def shard_cases(tier, i, n, docs_budget=None):
    for idx, case in all_cases(tier, docs_budget):
        if idx % n == i:
            yield idx, case


def opt_key(case):
    return tuple(case['opt'])

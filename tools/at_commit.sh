#!/bin/bash
# usage: tools/at_commit.sh <commit-ish of /repo> <command...>   - runs command with VERIF_REPO = export of that commit
set -e
c="$1"; shift
d="/scratch/at.$(echo $c | tr -c 'A-Za-z0-9' _).$$"
mkdir -p "$d"; git -C /repo archive "$c" | tar -x -C "$d"
set +e
VERIF_REPO="$d" "$@"; rc=$?
rm -rf "$d"; exit $rc

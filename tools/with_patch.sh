#!/bin/bash
# usage: tools/with_patch.sh <patch.diff> <command...>
# Runs <command> with VERIF_REPO pointing at a scratch copy of /repo's working tree with the patch applied.
set -e
patch="$(readlink -f "$1")"; shift
d="/scratch/mut.$$"
mkdir -p /scratch
rsync -a --exclude .git --exclude __pycache__ --exclude docs /repo/ "$d/"
( cd "$d" && patch -p1 -s < "$patch" )
set +e
VERIF_REPO="$d" "$@"
rc=$?
rm -rf "$d"
exit $rc

#!/venv/bin/python
"""Confirm and evaluate one seeded property-breaking change.

usage: tools/seed_eval.py <name> <src-dir> <property-id> [--checks C01,C03] [--no-suite] [--tier quick]

<src-dir> holds patch.diff, demo.py, notes.md (as delivered by an independent sub-agent). Steps, all on scratch copies
of /repo's current working tree (never /repo itself):
  1. the patch applies;  2. demo.py exits 0 without it and non-zero with it;  3. the repository's own test suite still
  passes with it;  4. the registered checks are run against the patched copy and their verdicts recorded.
Results go to /verif/seeded/<name>/ (patch.diff, demo.py, notes.md, meta.json).
"""
import argparse
import json
import os
import shutil
import subprocess
import sys
import time

VERIF = os.path.dirname(os.path.dirname(os.path.abspath(__file__)))


def sh(cmd, cwd=None, env=None, timeout=3600):
    p = subprocess.run(cmd, shell=True, cwd=cwd, env=env, capture_output=True, text=True, timeout=timeout)
    return p.returncode, (p.stdout + p.stderr)


def main():
    ap = argparse.ArgumentParser()
    ap.add_argument('name')
    ap.add_argument('src')
    ap.add_argument('prop')
    ap.add_argument('--checks', default=None)
    ap.add_argument('--no-suite', action='store_true')
    ap.add_argument('--tier', default='quick')
    ap.add_argument('--at', default=None, help='evaluate against this commit of /repo instead of its working tree')
    a = ap.parse_args()
    checks = (a.checks or a.prop).split(',')
    scratch = f'/scratch/seed.{a.name}.{os.getpid()}'
    clean, mut = scratch + '/clean', scratch + '/mut'
    os.makedirs(scratch, exist_ok=True)
    meta = {'name': a.name, 'breaks_property': a.prop, 'evaluated_at': time.strftime('%Y-%m-%d %H:%M:%S'),
            'repo_head': sh(f'git -C /repo rev-parse --short {a.at or "HEAD"}')[1].strip()}
    try:
        for d in (clean, mut):
            if a.at:
                os.makedirs(d, exist_ok=True)
                sh(f'git -C /repo archive {a.at} | tar -x -C {d}')
            else:
                sh(f'rsync -a --exclude .git --exclude __pycache__ --exclude docs /repo/ {d}/')
        rc, out = sh(f'patch -p1 --no-backup-if-mismatch < {a.src}/patch.diff', cwd=mut)
        meta['patch_applies'] = rc == 0
        if rc != 0:
            meta['patch_output'] = out[-800:]
            return finish(a, meta)
        shutil.copy(f'{a.src}/demo.py', clean + '/demo.py')
        shutil.copy(f'{a.src}/demo.py', mut + '/demo.py')
        rc0, out0 = sh('/venv/bin/python demo.py', cwd=clean, timeout=900)
        rc1, out1 = sh('/venv/bin/python demo.py', cwd=mut, timeout=900)
        meta['demo_without_change'] = rc0
        meta['demo_with_change'] = rc1
        meta['demo_output_with_change'] = out1[-600:]
        if rc0 != 0:
            meta['demo_output_without_change'] = out0[-600:]
        if not a.no_suite:
            rc, out = sh('/venv/bin/python -m pytest -q -p no:cacheprovider --timeout=900 -x 2>&1 | tail -3', cwd=mut, timeout=3000)
            meta['suite_with_change'] = out.strip().splitlines()[-1] if out.strip() else ''
            meta['suite_passes_with_change'] = ' passed' in out and 'failed' not in out and 'error' not in out.lower()
        meta['checks'] = {}
        for c in checks:
            env = dict(os.environ, VERIF_REPO=mut, VERIF_EVIDENCE_DIR=scratch + '/ev')
            t0 = time.time()
            rc, out = sh(f'./check {c} --tier {a.tier}', cwd=VERIF, env=env, timeout=7200)
            viol = [l for l in out.splitlines() if l.startswith('VIOLATION')]
            meta['checks'][c] = {'exit': rc, 'violation_lines': len(viol), 'first': (viol[0][:400] if viol else ''),
                                 'summary': (out.strip().splitlines() or [''])[-1][:300], 'wall_s': round(time.time() - t0, 1)}
        meta['detected_by'] = [c for c, v in meta['checks'].items() if v['exit'] == 1 and v['violation_lines']]
    finally:
        shutil.rmtree(scratch, ignore_errors=True)
    return finish(a, meta)


def finish(a, meta):
    dest = os.path.join(VERIF, 'seeded', a.name)
    os.makedirs(dest, exist_ok=True)
    for f in ('patch.diff', 'demo.py', 'notes.md'):
        if os.path.exists(f'{a.src}/{f}') and os.path.realpath(f'{a.src}/{f}') != os.path.realpath(os.path.join(dest, f)):
            shutil.copy(f'{a.src}/{f}', dest)
    prev = {}
    mp = os.path.join(dest, 'meta.json')
    if os.path.exists(mp):
        prev = json.load(open(mp))
    if a.tier != 'quick' and prev and 'checks' in meta:
        # an additional evaluation at another tier: recorded next to the quick-tier result, which is kept
        prev[f'checks_{a.tier}'] = meta['checks']
        prev[f'detected_by_{a.tier}'] = meta['detected_by']
        prev[f'{a.tier}_evaluated_at_head'] = meta['repo_head']
        meta = prev
    elif prev.get('demo_with_change') not in (0, None) and meta.get('patch_applies') and meta.get('demo_with_change') == 0:
        # the change no longer breaks the property on the current tree (a later repair removed what it relied on):
        # keep the record of the evaluation made when it did, and say so
        prev['no_longer_manifests_at'] = meta['repo_head']
        prev['checks_at_' + meta['repo_head']] = meta.get('checks')
        meta = prev
    if 'needs_to_manifest' in prev:
        meta['needs_to_manifest'] = prev['needs_to_manifest']
    if 'suite_passes_with_change' not in meta and 'suite_passes_with_change' in prev:
        meta['suite_passes_with_change'] = prev['suite_passes_with_change']
        meta['suite_with_change'] = prev.get('suite_with_change')
    with open(mp, 'w') as f:
        json.dump(meta, f, indent=1)
        f.write('\n')
    print(json.dumps({k: meta.get(k) for k in ('name', 'patch_applies', 'demo_without_change', 'demo_with_change',
                                               'suite_passes_with_change', 'detected_by')}))
    return 0


if __name__ == '__main__':
    sys.exit(main())

#!/venv/bin/python
"""Regenerates /verif/MANIFEST.json from the property modules (each carries a MANIFEST dict)."""
import ast, json, os, sys
VERIF = os.path.dirname(os.path.dirname(os.path.abspath(__file__)))
props = [json.loads(l) for l in open(os.path.join(VERIF, 'properties.jsonl'))]
ids = [p['id'] for p in props]
mods = {}
for fn in sorted(os.listdir(os.path.join(VERIF, 'props'))):
    if fn.startswith('c') and fn.endswith('.py'):
        src = open(os.path.join(VERIF, 'props', fn)).read()
        tree = ast.parse(src)
        vals = {}
        for node in tree.body:
            if isinstance(node, ast.Assign) and len(node.targets) == 1 and isinstance(node.targets[0], ast.Name):
                if node.targets[0].id in ('ID', 'LEVEL', 'MANIFEST'):
                    vals[node.targets[0].id] = ast.literal_eval(node.value)
        if 'ID' in vals and 'MANIFEST' in vals:
            mods[vals['ID']] = vals
checks, na = [], []
for pid in ids:
    if pid in mods:
        m = mods[pid]['MANIFEST']
        checks.append({
            'property_id': pid,
            'quick_cmd': f'./check {pid} --tier quick',
            'thorough_cmd': f'./check {pid} --tier thorough',
            'evidence_file': f'/verif/evidence/{pid}.json',
            'replay_cmd_template': f'./check {pid} --replay {{path}}',
            'engine': m.get('engine', 'mc'),
            'level_claimed': {'category': mods[pid].get('LEVEL', 'model_checking'), 'text': m['text'],
                              'design_ref': m.get('design_ref', f'DESIGN.md section 4 {pid}')},
            'level_note': m['note'],
            'technique': m['technique'],
        })
    else:
        na.append({'property_id': pid, 'reason': 'check not built yet (work in progress; see DESIGN.md section 4 for the planned exhaustive check)'})
manifest = {
    'version': 1,
    'setup_cmd': "/venv/bin/python -c \"import sys; sys.path.insert(0, '/repo'); import graphtage, numpy, scipy, yaml, json5, intervaltree; print('ok')\"",
    'hooks': {
        'guard': 'GRAPHTAGE_VERIF',
        'enable': 'no source hooks: checks wrap, shadow module globals and capture streams from outside the repository (DESIGN.md 3.7)',
        'baseline_off_cmd': 'cd /repo && /venv/bin/python -m pytest -ra -q -p no:cacheprovider --timeout=900 --continue-on-collection-errors',
        'source_commits': [],
        'add_only': True,
    },
    'engines': [
        {'name': 'mc', 'path': '/verif/mc', 'serves_properties': [c['property_id'] for c in checks],
         'kind_free_text': 'hand-written explicit-state / bounded-exhaustive / choice-point explorer for Python, running the real graphtage objects (no separate model, every explored execution is an execution of the implementation)'},
    ],
    'checks': checks,
    'not_applicable': na,
    'notes': 'All checks run /repo\'s working tree in-process (VERIF_REPO overrides the path for mutant runs). known_findings.json lists genuine defects recorded or fixed; see DESIGN.md.',
}
with open(os.path.join(VERIF, 'MANIFEST.json'), 'w') as f:
    json.dump(manifest, f, indent=1)
    f.write('\n')
print(f'{len(checks)} checks, {len(na)} not yet claimed')

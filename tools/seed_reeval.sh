#!/bin/bash
# usage: tools/seed_reeval.sh [name ...]   - re-evaluates recorded seeded changes (default: all) against /repo's current tree
# (patch applies, demo passes without / fails with the change, quick check of the property); the repository's suite is not
# re-run (its recorded result is kept).
cd "$(dirname "$0")/.."
names="$@"; [ -z "$names" ] && names=$(ls seeded | grep -E '^C[0-9]+[a-z]$')
for m in $names; do
  p=$(jq -r .breaks_property seeded/$m/meta.json)
  tools/seed_eval.py $m $PWD/seeded/$m $p --no-suite 2>&1 | tail -1
done

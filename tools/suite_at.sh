#!/bin/bash
# usage: tools/suite_at.sh <commit-ish>   - runs the repository's own test suite on an export of that commit of /repo
set -e
c="$1"; d="/scratch/suite.$(echo $c | tr -c 'A-Za-z0-9' _).$$"
mkdir -p "$d"; git -C /repo archive "$c" | tar -x -C "$d"
cd "$d"; set +e
/venv/bin/python -m pytest -q -p no:cacheprovider --timeout=900 -x 2>&1 | tail -3
rc=${PIPESTATUS[0]}
cd /; rm -rf "$d"; echo "suite_at $c rc=$rc"

#!/venv/bin/python
"""Prints a markdown table of what the last run of every check covered (from evidence/<id>.json)."""
import glob
import json
print('| id | tier | evaluations | distinct outcomes | states | transitions | violations | known-finding classes | wall s |')
print('|---|---|---|---|---|---|---|---|---|')
for f in sorted(glob.glob('/verif/evidence/C*.json')):
    e = json.load(open(f))
    c = e.get('coverage', {})
    print(f"| {e['property_id']} | {e.get('tier')} | {c.get('evaluations')} | {c.get('distinct_nontrivial')} | {c.get('states', 0)} | "
          f"{c.get('transitions', 0)} | {e.get('violations')} | {len(c.get('known_findings_seen', []) or [])} | {e.get('wall_s')} |")

#!/venv/bin/python
"""Prints the detection table (markdown) from seeded/*/meta.json."""
import json, os, glob
rows = []
for d in sorted(glob.glob('/verif/seeded/*/meta.json')):
    m = json.load(open(d))
    name = m['name']
    ok = m.get('patch_applies') and m.get('demo_without_change') == 0 and m.get('demo_with_change') not in (0, None) and m.get('suite_passes_with_change')
    det = ', '.join(m.get('detected_by') or []) or 'MISSED'
    first = ''
    for c, v in (m.get('checks') or {}).items():
        if v.get('first'):
            first = v['first'].split('[', 1)[-1].split(']')[0][:110]
    rows.append(f"| {name} | {m['breaks_property']} | {'yes' if ok else 'NO: ' + str({k: m.get(k) for k in ('patch_applies','demo_without_change','demo_with_change','suite_passes_with_change')})} | {det} | {first} |")
print('| change | property | confirmed (applies, demo passes/fails, suite passes) | detected by | first class key reported |')
print('|---|---|---|---|---|')
print('\n'.join(rows))

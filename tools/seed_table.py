#!/venv/bin/python
"""Prints the detection table (markdown, the format of DESIGN.md 9.5) from seeded/*/meta.json."""
import glob
import json

rows = []
bad = []
for d in sorted(glob.glob('/verif/seeded/*/meta.json')):
    m = json.load(open(d))
    name = m['name']
    ok = m.get('patch_applies') and m.get('demo_without_change') == 0 and m.get('demo_with_change') not in (0, None) \
        and m.get('suite_passes_with_change')
    if not ok:
        bad.append((name, {k: m.get(k) for k in ('patch_applies', 'demo_without_change', 'demo_with_change', 'suite_passes_with_change')}))
    det = ', '.join(m.get('detected_by') or [])
    thor = ', '.join(m.get('detected_by_thorough') or [])
    if not det:
        det = f'thorough tier only ({thor})' if thor else 'MISSED'
    first = ''
    for c, v in (m.get('checks') or {}).items():
        if v.get('first'):
            first = v['first'].split('[', 1)[-1].split(']')[0][:110]
    if not first:
        for c, v in (m.get('checks_thorough') or {}).items():
            if v.get('first'):
                first = v['first'].split('[', 1)[-1].split(']')[0][:110]
    note = ''
    if m.get('no_longer_manifests_at'):
        note = f' (evaluated at {m.get("repo_head")}; no longer breaks the property since {m["no_longer_manifests_at"]})'
    rows.append(f"| {name} | {m.get('needs_to_manifest', '')}{note} | {det} | {first} |")
print('| change | needs, to manifest | detected by (quick) | first class key reported |')
print('|---|---|---|---|')
print('\n'.join(rows))
if bad:
    print('\nNOT CONFIRMED:', bad)

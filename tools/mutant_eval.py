#!/venv/bin/python
"""Evaluate the hand-written mutants under /verif/mutants: usage tools/mutant_eval.py [--suite] [names...]"""
import json, os, subprocess, sys, shutil, time
VERIF = os.path.dirname(os.path.dirname(os.path.abspath(__file__)))
args = [a for a in sys.argv[1:] if not a.startswith('--')]
suite = '--suite' in sys.argv
names = args or sorted(os.listdir(os.path.join(VERIF, 'mutants')))
for name in names:
    d = os.path.join(VERIF, 'mutants', name)
    mp = os.path.join(d, 'meta.json')
    if not os.path.exists(mp):
        continue
    meta = json.load(open(mp))
    scratch = f'/scratch/mutant.{name}.{os.getpid()}'
    os.makedirs(scratch, exist_ok=True)
    try:
        subprocess.run(f'rsync -a --exclude .git --exclude __pycache__ --exclude docs /repo/ {scratch}/mut/', shell=True, check=True)
        p = subprocess.run(f'patch -p1 --no-backup-if-mismatch < {d}/patch.diff', shell=True, cwd=scratch + '/mut', capture_output=True, text=True)
        meta['patch_applies'] = p.returncode == 0
        if p.returncode == 0:
            if suite:
                p = subprocess.run('/venv/bin/python -m pytest -q -p no:cacheprovider --timeout=900 -x 2>&1 | tail -3', shell=True, cwd=scratch + '/mut', capture_output=True, text=True)
                meta['suite_with_change'] = (p.stdout.strip().splitlines() or [''])[-1]
                meta['suite_passes_with_change'] = ' passed' in p.stdout and 'failed' not in p.stdout
            else:
                c = meta['breaks_property']
                env = dict(os.environ, VERIF_REPO=scratch + '/mut', VERIF_EVIDENCE_DIR=scratch + '/ev')
                t0 = time.time()
                p = subprocess.run(f'./check {c} --tier quick', shell=True, cwd=VERIF, env=env, capture_output=True, text=True)
                viol = [l for l in p.stdout.splitlines() if l.startswith('VIOLATION')]
                meta['check'] = {'exit': p.returncode, 'violation_lines': len(viol), 'first': viol[0][:300] if viol else '',
                                 'summary': (p.stdout.strip().splitlines() or [''])[-1][:250], 'wall_s': round(time.time() - t0, 1)}
                meta['detected'] = p.returncode == 1 and bool(viol)
        json.dump(meta, open(mp, 'w'), indent=1)
        print(name, {k: meta.get(k) for k in ('patch_applies', 'detected', 'suite_passes_with_change')}, flush=True)
    finally:
        shutil.rmtree(scratch, ignore_errors=True)

#!/venv/bin/python
"""Cheap re-validation of every recorded seeded change against /repo's current tree: the patch still applies, demo.py
still exits 0 without it and non-zero with it. Records the result under "current_tree" in seeded/<name>/meta.json and
prints one line per change. (The full evaluation - suite and check - is tools/seed_eval.py / tools/seed_reeval.sh.)

usage: tools/seed_validate.py [-j N] [name ...]
"""
import concurrent.futures
import glob
import json
import os
import shutil
import subprocess
import sys

VERIF = os.path.dirname(os.path.dirname(os.path.abspath(__file__)))


def sh(cmd, cwd=None, timeout=1800):
    p = subprocess.run(cmd, shell=True, cwd=cwd, capture_output=True, text=True, timeout=timeout)
    return p.returncode, p.stdout + p.stderr


def one(name):
    src = os.path.join(VERIF, 'seeded', name)
    d = f'/scratch/seedval.{name}.{os.getpid()}'
    res = {'head': sh('git -C /repo rev-parse --short HEAD')[1].strip()}
    try:
        for sub in ('clean', 'mut'):
            os.makedirs(f'{d}/{sub}')
            sh(f'rsync -a --exclude .git --exclude __pycache__ --exclude docs --exclude test /repo/ {d}/{sub}/')
            shutil.copy(f'{src}/demo.py', f'{d}/{sub}/demo.py')
        rc, out = sh(f'patch -p1 --no-backup-if-mismatch < {src}/patch.diff', cwd=f'{d}/mut')
        res['patch_applies'] = rc == 0
        if rc == 0:
            res['demo_without_change'] = sh('/venv/bin/python demo.py', cwd=f'{d}/clean')[0]
            res['demo_with_change'] = sh('/venv/bin/python demo.py', cwd=f'{d}/mut')[0]
    except Exception as e:  # noqa
        res['error'] = repr(e)
    finally:
        shutil.rmtree(d, ignore_errors=True)
    mp = f'{src}/meta.json'
    m = json.load(open(mp))
    m['current_tree'] = res
    with open(mp, 'w') as f:
        json.dump(m, f, indent=1)
        f.write('\n')
    return name, res


def main():
    args = sys.argv[1:]
    jobs = 4
    if args[:1] == ['-j']:
        jobs = int(args[1])
        args = args[2:]
    names = args or sorted(os.path.basename(os.path.dirname(p)) for p in glob.glob(f'{VERIF}/seeded/*/patch.diff'))
    with concurrent.futures.ThreadPoolExecutor(jobs) as ex:
        for name, res in ex.map(one, names):
            ok = res.get('patch_applies') and res.get('demo_without_change') == 0 and res.get('demo_with_change') not in (0, None)
            print(name, 'still breaks the property' if ok else f'CHANGED: {res}')


if __name__ == '__main__':
    main()

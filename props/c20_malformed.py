"""C20 - malformed input is reported, not crashed on.

Fault enumeration, complete per seed document: for each text format with a notion of syntax error (JSON, JSON5, YAML,
XML, HTML, plist) and each seed document: truncation at every byte offset (also inside UTF-8 sequences), deletion and
duplication of every occurrence of every delimiter, every bracket / tag unbalanced. A corruption is kept only if the
format's own parser, called directly and outside graphtage, rejects it. Every kept file is given to main() as the first
and as the second file (the other side valid). Oracle: no exception escapes, exit status non-zero, stdout empty,
stderr names the file.
"""
import json
import os
import plistlib

from mc.run import Result, h, time_limit, CaseTimeout, run_sharded
from mc import pairspace, cli

ID = 'C20'
LEVEL = 'fault_enumeration'
CASE_TIMEOUT = 60
RULE = ('per seed document: every truncation point, every delimiter occurrence deleted / duplicated, every bracket or tag '
        'unbalanced; kept iff the reference parser of the format rejects the bytes; x {first, second} file position; '
        'distinct = distinct (format, position, error message class)')
ASSUMPTIONS = ['reference parsers: json, json5, yaml (pure-Python and C loader must both reject), xml.etree, plistlib',
               'CSV and pickle are excluded by the property statement']
MANIFEST = {
    'technique': 'exhaustive fault enumeration (all truncation points and delimiter faults of seed documents) against the real command-line entry point',
    'text': 'Every syntactic corruption of a fixed kind (truncate at byte i, delete / duplicate delimiter occurrence j, '
            'unbalance a bracket or tag) of 4-6 seed documents per format is generated, filtered by the format\'s own '
            'parser, and fed to main() in either file position: the command must print a message naming the file on '
            'stderr, print no diff, return non-zero and raise nothing.',
    'note': 'Complete for the seed documents and fault kinds listed; other corruptions (bit flips, encodings) are outside.',
    'design_ref': 'DESIGN.md 4/C20',
}

SEEDS = {
    'json': ['{"a": [1, 2, {"b": null}], "c": "x\\"y", "d": true}', '[{"k": "v"}, [], {}, 1.5e3, "\u00e9\u4e2d"]', '"just a string"',
             '{"nested": {"deep": {"er": [1, [2, [3]]]}}}', '{"é": "ü", "emoji": "\U0001F600"}'],
    'json5': ["{a: [1, 2, {b: null}], 'c': 'x', d: true, // comment\n}", '[{k: "v"}, [], {}, +1.5, "\u00e9"]', "{unquoted: 'single', trailing: [1, 2,],}",
              '{"plain": "json", "n": 0x10}'],
    'yaml': ['a:\n  - 1\n  - 2\n  - b: null\nc: "x y"\nd: true\n', '- k: v\n- []\n- {}\n- 1.5\n- "\u00e9\u4e2d"\n', 'key: [1, 2, {x: y}]\nother: {a: b}\n',
             'a: &anchor\n  x: 1\nb: *anchor\n', '? complex\n: value\nlist:\n- "q: uoted"\n'],
    'xml': ['<root a="1" b="2"><item id="1">one</item><x/></root>', '<?xml version="1.0"?>\n<a><b c="d">t</b><!-- c --><e/></a>',
            '<r>\u00e9\u4e2d<s k="&amp;"/></r>', '<a><b><c><d/></c></b></a>'],
    'html': ['<html><head><title>t</title></head><body><p class="x">hi</p><br/></body></html>', '<div id="a"><span>s</span><img src="x"/></div>',
             '<html><body>\u00e9<a href="u">l</a></body></html>', '<ul><li>1</li><li>2</li></ul>'],
    'plist': None,
}
EXT = {'json': '.json', 'json5': '.json5', 'yaml': '.yml', 'xml': '.xml', 'html': '.html', 'plist': '.plist'}
DELIMS = {
    'json': '{}[],:"', 'json5': '{}[],:"\'', 'yaml': ':-[]{}\n &*?"', 'xml': '<>/="', 'html': '<>/="', 'plist': '<>/',
}
VALID = {}
THOROUGH = [False]


def seeds(fmt):
    if fmt == 'plist':
        return [plistlib.dumps({'a': [1, 2, {'b': 'x'}], 'c': 'x y', 'd': True}).decode(), plistlib.dumps([{'k': 'v'}, [], {}, 1.5, '\u00e9']).decode(),
                plistlib.dumps({'n': {'d': {'e': [1, [2]]}}}).decode(), plistlib.dumps('s').decode()]
    return SEEDS[fmt]


def rejects(fmt, data: bytes):
    """True iff the format's own parser (outside graphtage) rejects these bytes."""
    try:
        if fmt == 'json':
            json.loads(data.decode('utf-8'))
        elif fmt == 'json5':
            import json5
            json5.loads(data.decode('utf-8'))
        elif fmt == 'yaml':
            import yaml
            ok_py = ok_c = True
            try:
                list(yaml.load_all(data, Loader=yaml.Loader))
            except Exception:  # noqa
                ok_py = False
            try:
                list(yaml.load_all(data, Loader=getattr(yaml, 'CLoader', yaml.Loader)))
            except Exception:  # noqa
                ok_c = False
            return (not ok_py) and (not ok_c)
        elif fmt in ('xml', 'html'):
            import xml.etree.ElementTree as ET
            ET.fromstring(data)
        elif fmt == 'plist':
            plistlib.loads(data)
        return False
    except Exception:  # noqa
        return True


def corruptions(fmt, seed: str):
    """(kind, bytes) for every fault of the fixed kinds; deterministic order."""
    raw = seed.encode('utf-8')
    for i in range(len(raw)):
        yield f'truncate@{i}', raw[:i]
    for j, ch in enumerate(seed):
        if ch in DELIMS[fmt]:
            yield f'delete {ch!r}@{j}', (seed[:j] + seed[j + 1:]).encode('utf-8')
            yield f'duplicate {ch!r}@{j}', (seed[:j] + ch + seed[j:]).encode('utf-8')
    pairs = {'{': '}', '[': ']', '<': '>'}
    for j, ch in enumerate(seed):
        if ch in pairs:
            yield f'swap-bracket {ch!r}@{j}', (seed[:j] + pairs[ch] + seed[j + 1:]).encode('utf-8')
    if fmt in ('xml', 'html', 'plist'):
        import re
        for m in re.finditer(r'</([A-Za-z0-9]+)>', seed):
            yield f'rename-close-tag@{m.start()}', (seed[:m.start(1)] + 'zz' + seed[m.end(1):]).encode('utf-8')
    if THOROUGH[0]:
        # a stray delimiter inserted at every offset; every byte replaced by an invalid UTF-8 byte / NUL
        for j in range(len(seed) + 1):
            for ch in DELIMS[fmt]:
                yield f'insert {ch!r}@{j}', (seed[:j] + ch + seed[j:]).encode('utf-8')
        for i in range(len(raw)):
            yield f'byte-0xff@{i}', raw[:i] + b'\xff' + raw[i + 1:]
            yield f'byte-nul@{i}', raw[:i] + b'\x00' + raw[i + 1:]


def all_faults(tier):
    THOROUGH[0] = tier != 'quick'
    idx = 0
    for fmt in ('json', 'json5', 'yaml', 'xml', 'html', 'plist'):
        sds = seeds(fmt)
        if tier == 'quick':
            sds = sds[:3]
        for si, seed in enumerate(sds):
            for kind, data in corruptions(fmt, seed):
                yield idx, fmt, si, kind, data
                idx += 1


def diff_text(out, html):
    """What stdout carries besides the empty HTML page skeleton that --html prints before any file is read."""
    if not html:
        return out.strip()
    import re
    text = re.sub(r'<title>.*?</title>', '', out, flags=re.S)
    text = re.sub(r'<[^>]*>', '', text)
    return text.strip()


def message_class(err):
    import re
    return re.sub(r'[0-9]+', 'N', err.strip().split('\n')[0])[:80]


OPTION_SETS = (['--no-status', '--no-color'], ['--quiet'], [], ['--log-level', 'CRITICAL', '--no-status'], ['--no-status', '--color', '-e'],
               ['--no-status', '--html'], ['--no-status', '-k', '-l', '-d'])


def evaluate(fmt, si, kind, data):
    """Returns (kept, runs, failure, outcomes)."""
    if not rejects(fmt, data):
        return False, 0, None, set()
    dirp = pairspace.tmpdir()
    good = seeds(fmt)[0].encode('utf-8')
    outs = set()
    runs = 0
    # every fault under the default flags; the faults of the first seed document of each format under every option set
    for flags in (OPTION_SETS if si == 0 else OPTION_SETS[:1]):
      for pos in ('first', 'second'):
            bad_name = f'bad_{pos}{EXT[fmt]}'
            fbad = cli.write_file(dirp, bad_name, data)
            fgood = cli.write_file(dirp, 'good' + EXT[fmt], good)
            argv = flags + ([fbad, fgood] if pos == 'first' else [fgood, fbad])
            runs += 1
            opt = ' '.join(flags) or '(none)'
            try:
                with time_limit(CASE_TIMEOUT):
                    o = cli.run_main(argv)
            except CaseTimeout:
                return True, runs, {'key': f'timeout @ __main__.main : {fmt} as {pos} file, options {opt}', 'detail': f'{kind}: {data[:120]!r}'}, outs
            what = kind.split('@')[0].split(' ')[0]
            if o.exc and o.exc != 'SystemExit':
                return True, runs, {'key': f'uncaught {o.exc} @ {o.exc_site} : malformed {fmt}',
                                 'detail': f'{kind} as {pos} file: {data[:160]!r}\n{o.tb[-900:]}'}, outs
            if o.rc == 0 or o.rc is None:
                return True, runs, {'key': f'exit_status_zero @ __main__.main : malformed {fmt}, options {opt}',
                                 'detail': f'{kind} as {pos} file: {data[:160]!r}\nstdout {o.out[:200]!r}'}, outs
            if diff_text(o.out, '--html' in flags):
                return True, runs, {'key': f'diff_printed_for_malformed_input @ __main__.main : malformed {fmt}, options {opt}',
                                 'detail': f'{kind} as {pos} file: {data[:160]!r}\nstdout {o.out[:300]!r}'}, outs
            if bad_name not in o.err:
                return True, runs, {'key': f'message_does_not_name_the_file @ {fmt} loader : malformed {fmt}, options {opt}',
                                 'detail': f'{kind} as {pos} file: {data[:160]!r}\nstderr {o.err[:300]!r}'}, outs
            outs.add(h((fmt, pos, opt, message_class(o.err))))
    return True, runs, None, outs


def _shard(i, n, tier, payload):
    r = Result()
    kept = {}
    for idx, fmt, si, kind, data in all_faults(tier):
        if idx % n != i:
            continue
        k, runs, fail, outs = evaluate(fmt, si, kind, data)
        r.extra['faults_generated'] = r.extra.get('faults_generated', 0) + 1
        if k:
            kept[fmt] = kept.get(fmt, 0) + 1
        r.evaluations += runs
        r.outcomes |= outs
        if fail:
            r.fail(fail['key'], {'fmt': fmt, 'seed': si, 'kind': kind, 'data_hex': data.hex()}, fail['detail'], order=idx)
        if idx % 1733 == 0 and len(r.samples) < 4 and k:
            r.samples.append({'fmt': fmt, 'fault': kind, 'bytes': data[:80].decode('utf-8', 'replace')})
    r.extra['faults_kept_per_format'] = kept
    return r


def run(ctx):
    return run_sharded(ctx, __name__, '_shard', ctx.workers * 4)


def replay(case):
    THOROUGH[0] = True
    _, _, fail, _ = evaluate(case['fmt'], case['seed'], case['kind'], bytes.fromhex(case['data_hex']))
    return fail

"""C08 - mappings are unordered, lists are ordered.

E1: document pairs containing mappings x every permutation of the key order of every mapping at every depth on both
sides x dictionary strategies x {json.build_tree, BasicBuilder, JSON text through the CLI}. Oracle: total cost and the
order-insensitive script (which items are paired / removed / inserted) are identical across all permutations; a
document and its permuted copy compare equal (cost 0, exit status 0). List clause: swapping two unequal elements of any
list of any document yields a non-zero cost.
"""
import itertools
import json

from mc.run import Result, h, time_limit, CaseTimeout, run_sharded
from mc import pairspace, cli
from mc.gen import DocSpace, canon, build_options, cli_flags, DICT_STRATEGIES
from mc.script import ABSENT, ScriptError, recon, refine, tighten_fully, site_of, sub_edits, G

ID = 'C08'
LEVEL = 'model_checking'
CASE_TIMEOUT = 60
RULE = ('all pairs from a mapping-rich document family x all key permutations of all mappings on both sides x '
        '{auto, match, none} x 2 builders; plus all element swaps of all lists of a document family; distinct = '
        'distinct (pair, order-insensitive script)')
ASSUMPTIONS = ['equality as in C02 (type-strict); zero-size elements are ordinary elements',
               'pairings are compared as multisets of (edit class, from value, to value, cost) per container']
MANIFEST = {
    'technique': 'bounded-exhaustive enumeration of key permutations / element swaps on the real code, invariance oracle',
    'text': 'For every pair of a mapping-rich document family every insertion order of every mapping (at every depth, '
            'both documents) is built through json.build_tree and BasicBuilder under each dictionary strategy: cost '
            'and the set of paired/removed/inserted items must not change, and a document equals its permuted copy '
            '(also through the CLI exit status). Every swap of two unequal list elements must cost something.',
    'note': 'Bounded: mappings of <= 3 keys (4 thorough), nesting depth 2, small value alphabet.',
    'design_ref': 'DESIGN.md 4/C08',
}


def mapping_docs(tier):
    # thorough: four keys (24 x 24 orders per pair of mappings), which is affordable over two values only
    keys = ('a', 'b', 'c') if tier == 'quick' else ('a', 'b', 'c', 'd')
    vals = (1, 2, 'ab') if tier == 'quick' else (1, 'ab')
    flat = []
    for combo in itertools.product((None,) + vals, repeat=len(keys)):
        flat.append({k: v for k, v in zip(keys, combo) if v is not None})
    if tier != 'quick':
        flat = [d for d in flat if len(d) != 3 or set(d.values()) != {1}]
    docs = list(flat)
    two = [d for d in flat if len(d) == 2]
    for d in two[:12]:
        docs.append({'a': d, 'b': 1})
        docs.append([d, 1])
        docs.append({'a': d, 'c': dict(reversed(list(d.items())))})
    return docs


def permutations_of(doc):
    """All documents equal to doc as data but with every mapping's key order permuted (every combination)."""
    if isinstance(doc, dict):
        items = list(doc.items())
        child_perms = [list(permutations_of(v)) for _, v in items]
        for order in itertools.permutations(range(len(items))):
            for combo in itertools.product(*[child_perms[i] for i in order]):
                yield {items[i][0]: c for i, c in zip(order, combo)}
    elif isinstance(doc, list):
        for combo in itertools.product(*[list(permutations_of(v)) for v in doc]):
            yield list(combo)
    else:
        yield doc


def n_mappings(doc):
    if isinstance(doc, dict):
        return (1 if len(doc) >= 2 else 0) + sum(n_mappings(v) for v in doc.values())
    if isinstance(doc, list):
        return sum(n_mappings(v) for v in doc)
    return 0


def loose_script(e):
    """Order-insensitive canonical script: children of every container edit as a sorted multiset."""
    a, b = recon(e)
    subs = sorted(repr(loose_script(s)) for s in sub_edits(e))
    bd = e.bounds()
    return (type(e).__name__, str(bd), None if a is ABSENT else canon(a), None if b is ABSENT else canon(b), tuple(subs))


def diff_summary(builder, a, b, opt):
    if builder == 'json':
        ta, tb = pairspace.build('json', a, opt), pairspace.build('json', b, opt)
    else:
        from graphtage.builder import BasicBuilder
        bb = BasicBuilder(build_options(tuple(opt)))
        ta, tb = bb.build_tree(a), bb.build_tree(b)
    e = ta.edits(tb)
    refine(e)
    tighten_fully(e)
    return int(e.bounds().upper_bound), h(loose_script(e))


def mixed_cases(tier):
    """Mappings whose keys mix ints and strings (YAML, pickle, Python API): LeafNode ordering is not transitive there."""
    ka = (9, 10, '1a')
    kb = (9, 10, '1a', '1b')
    va = ('x', 'bbbb')
    vb = ('x', 'aaaa', 'bbbb')
    As = [list(zip(ka, vs)) for vs in itertools.product(va, repeat=3)]
    Bs = []
    for vs in itertools.product(vb, repeat=3):
        for last in (None,) + vb[1:]:
            items = list(zip(kb[:3], vs)) + ([(kb[3], last)] if last is not None else [])
            Bs.append(items)
    if tier == 'quick':
        As, Bs = As[::2] + [As[-1]], Bs[::3]
    for a in As:
        for b in Bs:
            for ds in ('auto', 'match'):
                yield {'mixed': True, 'a': [list(p) for p in a], 'b': [list(p) for p in b], 'ds': ds}


def evaluate(case):
    if case.get('mixed'):
        case = dict(case, a={k: v for k, v in case['a']}, b={k: v for k, v in case['b']})
    a, b, ds = case['a'], case['b'], case['ds']
    opt = [ds, 'on']
    tag = f'dict={ds}'
    try:
        with time_limit(CASE_TIMEOUT):
            n = 0
            for builder in ('json', 'basic'):
                ref = None
                pa_list = list(permutations_of(a))
                pb_list = list(permutations_of(b))
                for pa in pa_list:
                    for pb in pb_list:
                        got = diff_summary(builder, pa, pb, opt)
                        n += 1
                        if ref is None:
                            ref = (got, pa, pb)
                        elif got[0] != ref[0][0]:
                            return {'key': f'cost_depends_on_key_order @ {builder} builder : {tag}',
                                    'detail': f'{ref[1]!r} -> {ref[2]!r} costs {ref[0][0]}; {pa!r} -> {pb!r} costs {got[0]}'}, n
                        elif got[1] != ref[0][1]:
                            return {'key': f'pairing_depends_on_key_order @ {builder} builder : {tag}',
                                    'detail': f'{ref[1]!r} -> {ref[2]!r} and {pa!r} -> {pb!r}: same cost {got[0]}, different pairing'}, n
                # a document against its own permuted copies
                for pa in pa_list[1:]:
                    c, _ = diff_summary(builder, a, pa, opt)
                    n += 1
                    if c != 0:
                        return {'key': f'permuted_copy_not_equal @ {builder} builder : {tag}',
                                'detail': f'{a!r} vs {pa!r} costs {c}'}, n
            return None, n
    except CaseTimeout:
        return {'key': f'timeout @ diff : {tag}', 'detail': f'{a!r} -> {b!r}'}, 0
    except ScriptError as se:
        return {'key': f'script_malformed {se.kind} @ {se.site} : {tag}', 'detail': f'{a!r} -> {b!r}: {se}'}, 0
    except Exception as ex:  # noqa
        import traceback
        return {'key': f'exception {type(ex).__name__} @ {site_of(ex)} : {tag}', 'detail': f'{a!r} -> {b!r}\n' + traceback.format_exc()[-1000:]}, 0


def cases(tier):
    docs = mapping_docs(tier)
    rich = [d for d in docs if n_mappings(d) >= 1]
    idx = 0
    for a in rich:
        for b in docs:
            for ds in DICT_STRATEGIES:
                yield idx, {'a': a, 'b': b, 'ds': ds}
                idx += 1
    for c in mixed_cases(tier):
        yield idx, c
        idx += 1


# ---- list clause ---------------------------------------------------------------------------------------------------
def list_docs(tier):
    ds = DocSpace((1, '1', '', None, True, 'a'), ('a',), 3)
    out = []
    for n in range(3, (5 if tier == 'quick' else 6) + 1):
        for d in ds.exact(n):
            out.append(d)
    return out


def swaps(doc, path=()):
    """All documents obtained by swapping two unequal elements of one list anywhere in doc."""
    if isinstance(doc, list):
        for i in range(len(doc)):
            for j in range(i + 1, len(doc)):
                if canon(doc[i]) != canon(doc[j]):
                    new = list(doc)
                    new[i], new[j] = new[j], new[i]
                    yield new
        for i, v in enumerate(doc):
            for sv in swaps(v):
                new = list(doc)
                new[i] = sv
                yield new
    elif isinstance(doc, dict):
        for k, v in doc.items():
            for sv in swaps(v):
                new = dict(doc)
                new[k] = sv
                yield new


def swap_eval(doc):
    n = 0
    try:
        with time_limit(CASE_TIMEOUT):
            for sw in swaps(doc):
                for opt in pairspace.relevant_options(doc, sw):
                    ta, tb = pairspace.build('json', doc, opt), pairspace.build('json', sw, opt)
                    c = ta.diff(tb).edited_cost()
                    n += 1
                    if c == 0:
                        return {'key': f'swapped_list_elements_cost_nothing @ ListNode : dict={opt[0]}, lists={opt[1]}',
                                'detail': f'{doc!r} vs {sw!r}'}, n
            return None, n
    except CaseTimeout:
        return {'key': 'timeout @ diff : swap', 'detail': repr(doc)}, n
    except Exception as ex:  # noqa
        import traceback
        return {'key': f'exception {type(ex).__name__} @ {site_of(ex)} : swap', 'detail': repr(doc) + traceback.format_exc()[-800:]}, n


def cli_copy_eval(doc):
    """A document and a key-permuted copy, as JSON text, through the command line: exit status 0."""
    perms = list(permutations_of(doc))
    if len(perms) < 2:
        return None, 0
    dirp = pairspace.tmpdir()
    n = 0
    for p in (perms[1], perms[-1]):
        fa = cli.write_file(dirp, 'o_a.json', json.dumps(doc))
        fb = cli.write_file(dirp, 'o_b.json', json.dumps(p))
        for ds in DICT_STRATEGIES:
            o = cli.run_main(['--no-status', '--no-color'] + cli_flags((ds, 'on')) + [fa, fb])
            n += 1
            if o.exc or o.rc != 0:
                return {'key': f'permuted_copy_exit_status_nonzero @ __main__.main : dict={ds}',
                        'detail': f'{json.dumps(doc)} vs {json.dumps(p)}: rc={o.rc} exc={o.exc}'}, n
    return None, n


# ---- XML attributes are mappings too: every attribute order in the file --------------------------------------------------
XML_ATTRS = [('id', '1'), ('href', 'a'), ('x:href', 'bb'), ('y:id', '2'), ('class', 'c')]


def xml_attr_cases(tier):
    k = 3
    sets = [list(c) for n in (2, k) for c in itertools.combinations(range(len(XML_ATTRS)), n)]
    for sa in sets:
        for sb in sets:
            for ds in DICT_STRATEGIES:
                yield {'xml_attrs': [sa, sb], 'ds': ds}


def xml_text(attr_indexes, inner=False):
    attrs = ' '.join(f'{XML_ATTRS[i][0]}="{XML_ATTRS[i][1]}"' for i in attr_indexes)
    el = f'<e {attrs}/>'
    return f'<r xmlns:x="urn:x" xmlns:y="urn:y">{el}</r>' if inner else f'<e xmlns:x="urn:x" xmlns:y="urn:y" {attrs}/>'


def xml_attr_eval(case):
    from graphtage import graphtage as gg
    sa, sb = case['xml_attrs']
    ds = case['ds']
    opt = build_options((ds, 'on'))
    dirp = pairspace.tmpdir()
    n = 0
    try:
        with time_limit(CASE_TIMEOUT):
            for inner in (False, True):
                ref = None
                first_a = None
                for pa in itertools.permutations(sa):
                    fa = cli.write_file(dirp, 'xa.xml', xml_text(pa, inner))
                    ta = gg.FILETYPES_BY_TYPENAME['xml'].build_tree(fa, opt)
                    if first_a is None:
                        first_a = ta
                    else:
                        n += 1
                        if int(first_a.diff(ta).edited_cost()) != 0:
                            return {'key': f'permuted_copy_not_equal @ xml loader : dict={ds}',
                                    'detail': f'{xml_text(tuple(sa), inner)} vs {xml_text(pa, inner)}'}, n
                    for pb in itertools.permutations(sb):
                        fb = cli.write_file(dirp, 'xb.xml', xml_text(pb, inner))
                        tb = gg.FILETYPES_BY_TYPENAME['xml'].build_tree(fb, opt)
                        e = ta.edits(tb)
                        refine(e)
                        tighten_fully(e)
                        got = (int(e.bounds().upper_bound), h(loose_script(e)))
                        n += 1
                        if ref is None:
                            ref = (got, pa, pb)
                        elif got[0] != ref[0][0]:
                            return {'key': f'cost_depends_on_key_order @ xml loader : dict={ds}',
                                    'detail': f'{xml_text(ref[1], inner)} -> {xml_text(ref[2], inner)} costs {ref[0][0]}; '
                                              f'{xml_text(pa, inner)} -> {xml_text(pb, inner)} costs {got[0]}'}, n
                        elif got[1] != ref[0][1]:
                            return {'key': f'pairing_depends_on_key_order @ xml loader : dict={ds}',
                                    'detail': f'{xml_text(pa, inner)} -> {xml_text(pb, inner)}: same cost {got[0]}, different pairing'}, n
            return None, n
    except CaseTimeout:
        return {'key': f'timeout @ diff : xml attributes, dict={ds}', 'detail': json.dumps(case)}, n
    except ScriptError as se:
        return {'key': f'script_malformed {se.kind} @ {se.site} : xml attributes', 'detail': f'{case}: {se}'}, n
    except Exception as ex:  # noqa
        import traceback
        return {'key': f'exception {type(ex).__name__} @ {site_of(ex)} : xml attributes, dict={ds}', 'detail': json.dumps(case) + traceback.format_exc()[-1000:]}, n


# ---- canonical order of keys of any kind ---------------------------------------------------------------------------------
# keys of every kind the Python API accepts (encoded for JSON: tuples as {'t': [...]}, frozensets as {'f': [...]}, bytes as {'y': 'text'})
KEY_KINDS = [9, 10, '1a', '9', 1.5, True, None, {'t': [1]}, {'t': ['a']}, {'t': [1, 2]}, 'x', {'y': 'x'}, 'ListNode', 'None',
             {'t': [None]}, {'t': []}, '', 0, {'t': [[1], 2]}, {'f': [1]}, {'f': [1, 2]}, {'f': []}, {'f': ['a']}]


def real_key(k):
    if isinstance(k, dict):
        if 't' in k:
            return tuple(real_key({'t': x}) if isinstance(x, list) else x for x in k['t'])
        if 'f' in k:
            return frozenset(k['f'])
        return k['y'].encode()
    return k


def key_order_cases(tier):
    size = 3 if tier == 'quick' else 4
    for sub in itertools.combinations(range(len(KEY_KINDS)), size):
        yield list(sub)


def key_order_eval(sub):
    """One mapping with the given keys, built from every insertion order: the stored item order, equality and cost 0."""
    from graphtage.builder import BasicBuilder
    keys = [real_key(KEY_KINDS[i]) for i in sub]
    if len({k: 0 for k in keys}) != len(keys):
        return None, 0          # 1 / True (0 / False) are the same dict key in Python
    first = None
    n = 0
    for perm in itertools.permutations(keys):
        try:
            with time_limit(CASE_TIMEOUT):
                t = BasicBuilder().build_tree({k: 'v' for k in perm})
                order = [repr(kvp.key) for kvp in t]
                n += 1
                if first is None:
                    first = (order, t, perm)
                    continue
                if order != first[0]:
                    return {'key': 'stored_item_order_depends_on_key_order @ DictNode.from_dict : keys of mixed kinds',
                            'detail': f'keys {first[2]!r} are stored as {first[0]}, keys {perm!r} as {order}'}, n
                if not (t == first[1]) or int(first[1].diff(t).edited_cost()) != 0:
                    return {'key': 'permuted_copy_not_equal @ DictNode : keys of mixed kinds', 'detail': f'{first[2]!r} vs {perm!r}'}, n
        except CaseTimeout:
            return {'key': 'timeout @ build : keys of mixed kinds', 'detail': repr(perm)}, n
        except Exception as ex:  # noqa
            return {'key': f'exception {type(ex).__name__} @ {site_of(ex)} : keys of mixed kinds', 'detail': f'{perm!r}: {ex!r}'}, n
    return None, n


def _shard(i, n, tier, payload):
    r = Result()
    for idx, case in enumerate(xml_attr_cases(tier)):
        if idx % n != i:
            continue
        fail, k = xml_attr_eval(case)
        r.evaluations += k
        r.extra['xml_attribute_order_diffs'] = r.extra.get('xml_attribute_order_diffs', 0) + k
        if fail:
            r.fail(fail['key'], case, fail['detail'], order=4 * 10 ** 7 + idx)
        elif k:
            r.outcomes.add(h(('xml_attrs', idx)))
    for idx, sub in enumerate(key_order_cases(tier)):
        if idx % n != i:
            continue
        fail, k = key_order_eval(sub)
        r.evaluations += k
        r.extra['key_order_builds'] = r.extra.get('key_order_builds', 0) + k
        if fail:
            r.fail(fail['key'], {'key_kinds': sub}, fail['detail'], order=3 * 10 ** 7 + idx)
        elif k:
            r.outcomes.add(h(('key_order', idx)))
    for idx, case in cases(tier):
        if idx % n != i:
            continue
        fail, k = evaluate(case)
        r.evaluations += max(k, 1)
        if fail:
            r.fail(fail['key'], case, fail['detail'], order=idx)
        else:
            r.outcomes.add(h(('perm', idx)))
        if idx % 4999 == 0 and len(r.samples) < 3:
            r.samples.append(case)
    for idx, doc in enumerate(list_docs(tier)):
        if idx % n != i:
            continue
        fail, k = swap_eval(doc)
        r.evaluations += k
        r.extra['swap_diffs'] = r.extra.get('swap_diffs', 0) + k
        if fail:
            r.fail(fail['key'], {'swap_doc': doc}, fail['detail'], order=10 ** 7 + idx)
        elif k:
            r.outcomes.add(h(('swap', idx)))
    for idx, doc in enumerate(mapping_docs(tier)):
        if idx % n != i:
            continue
        fail, k = cli_copy_eval(doc)
        r.evaluations += k
        r.extra['cli_copy_runs'] = r.extra.get('cli_copy_runs', 0) + k
        if fail:
            r.fail(fail['key'], {'cli_doc': doc}, fail['detail'], order=2 * 10 ** 7 + idx)
    return r


def run(ctx):
    return run_sharded(ctx, __name__, '_shard', ctx.workers * 8)


def replay(case):
    if 'key_kinds' in case:
        return key_order_eval(case['key_kinds'])[0]
    if 'xml_attrs' in case:
        return xml_attr_eval(case)[0]
    if 'swap_doc' in case:
        return swap_eval(case['swap_doc'])[0]
    if 'cli_doc' in case:
        return cli_copy_eval(case['cli_doc'])[0]
    return evaluate(case)[0]

"""C18 - Python objects are converted faithfully and cycles never hang.

E1 over object graphs: all rooted graphs with <= k container nodes (list / tuple / dict / set), each with <= 2 child
slots filled by a scalar or by an edge to any container node (forward edge: sharing / DAG; backward or self edge:
cycle), plus a custom object pointing into the graph; x entry points {json.build_tree, BasicBuilder().build_tree,
pydiff.build_tree} x dictionary strategies x cycle options. Oracle: acyclic -> to_obj() equals the original (tuples as
lists, sets as bags), the entry points agree, copy() gives an equal tree; shared sub-objects are not reported as cycles;
cyclic -> terminates with a cycle error, or with a placeholder when cycles are ignored.
"""
import enum
import itertools
import json

from mc.run import Result, h, time_limit, CaseTimeout, run_sharded
from mc.gen import Bag, canon, build_options, DICT_STRATEGIES
from mc.script import plain, site_of

ID = 'C18'
LEVEL = 'model_checking'
CASE_TIMEOUT = 8
RULE = ('all rooted object graphs with <= k containers (types list/tuple/dict/set, <= 2 slots, slot = scalar or edge to any '
        'container incl. itself), all reachable from the root, x 3 entry points x 3 dict strategies x cycle options; distinct '
        '= distinct (graph, entry point, options, outcome class)')
ASSUMPTIONS = ['cycle checking disabled on a cyclic input is a user-requested non-terminating walk and is excluded',
               'json.build_tree has no cycle detection: for cyclic input only termination by an exception is required',
               'sets hold scalars and tuples of hashables; mapping keys are strings or tuples; a tuple inside a set or used as a key may read back as a tuple']
MANIFEST = {
    'technique': 'bounded-exhaustive enumeration of object graphs (trees, DAGs, cycles) x entry points x options on the real builders, value round-trip / agreement / termination oracle',
    'text': 'Every small rooted object graph over list/tuple/dict/set nodes, including shared sub-objects and self- or '
            'mutually-referential cycles, is converted through all three builder entry points under every dictionary '
            'strategy and cycle option: acyclic graphs must convert to a tree whose to_obj() equals the original and '
            'whose copy() is equal, sharing must not be mistaken for a cycle, and cyclic graphs must end in a cycle '
            'error or a placeholder within the watchdog.',
    'note': 'Bounded: k = 1 full alphabet, k = 2 over 3 scalars, k = 3 chains (quick); k = 2 full, k = 3 with 2 slots, k = 4 chains (thorough).',
    'design_ref': 'DESIGN.md 4/C18',
}

TYPES = ('list', 'tuple', 'dict', 'set')


class UserId(int):
    pass


class Tag(str):
    pass


class Ratio(float):
    pass


class Level(enum.IntEnum):
    LOW = 3


# scalars whose type is a proper subclass of a supported scalar type: they read back as (equal to) the base value
SUBCLASS_SCALARS = (UserId(7), Tag('t'), Ratio(2.5), Level.LOW)


def base_value(v):
    if type(v) in (bool, int, float, str):
        return v
    for base in (int, float, str):
        if isinstance(v, base) and type(v) is not base:
            return base(v)
    return v
NAN = float('nan')     # one object: a set built from it twice holds it once, like any other scalar


class Node:
    """A custom object used as a graph node: its slots are the attributes a0, a1 (pydiff entry point only)."""


def specs(k, scalars, maxslots=2, types=None):
    """All graphs: tuple of (type, slots) where a slot is ('s', scalar) or ('e', j); every container reachable from 0."""
    def slot_options(typ):
        opts = [('s', s) for s in scalars]
        opts += [('e', j) for j in range(k)]      # for a set: only to hashable nodes (tuples of hashables), filtered below
        return opts

    def hashable(combo, j, stack=()):
        typ, slots = combo[j]
        if typ != 'tuple' or j in stack:
            return False
        return all(kind == 's' or hashable(combo, v, stack + (j,)) for kind, v in slots)

    per = []
    for typ in (types or TYPES):
        for n in range(0, maxslots + 1):
            for slots in itertools.product(slot_options(typ), repeat=n):
                if typ == 'set' and len({(kd, v) for kd, v in slots}) != len(slots):
                    continue        # members that are equal in Python (1 == True) collapse inside a real set
                if typ == 'set' and len({v for kd, v in slots if kd == 's'}) != len([1 for kd, _ in slots if kd == 's']):
                    continue
                per.append((typ, slots))
    for combo in itertools.product(per, repeat=k):
        if any(typ == 'set' and any(kind == 'e' and not hashable(combo, v) for kind, v in slots) for typ, slots in combo):
            continue        # a set can only hold hashable members
        reach = {0}
        stack = [0]
        while stack:
            i = stack.pop()
            for kind, v in combo[i][1]:
                if kind == 'e' and v not in reach:
                    reach.add(v)
                    stack.append(v)
        if len(reach) != k:
            continue
        # canonical numbering: containers are first reached in index order (removes relabelled duplicates)
        order = []
        seen = set()
        st = [0]
        while st:
            i = st.pop(0)
            if i in seen:
                continue
            seen.add(i)
            order.append(i)
            for kind, v in combo[i][1]:
                if kind == 'e' and v not in seen:
                    st.append(v)
        if order != sorted(order):
            continue
        yield combo


def classify(spec):
    """'tree' | 'dag' | 'cyclic' | None (not constructible: a cycle through immutable nodes only)."""
    k = len(spec)
    color = [0] * k
    cyclic = [False]

    def dfs(i):
        color[i] = 1
        for kind, v in spec[i][1]:
            if kind == 'e':
                if color[v] == 1:
                    cyclic[0] = True
                elif color[v] == 0:
                    dfs(v)
        color[i] = 2
    dfs(0)
    indeg = [0] * k
    for t, slots in spec:
        for kind, v in slots:
            if kind == 'e':
                indeg[v] += 1
    if cyclic[0]:
        return 'cyclic'
    return 'dag' if any(d > 1 for d in indeg) else 'tree'


def construct(spec):
    """Build the real Python objects. Returns the root or raises Unbuildable."""
    k = len(spec)
    objs = [None] * k
    for i, (typ, slots) in enumerate(spec):
        if typ == 'list':
            objs[i] = []
        elif typ in ('dict', 'dictk'):
            objs[i] = {}
        elif typ == 'obj':
            objs[i] = Node()
    pending = [i for i in range(k) if objs[i] is None]
    for _ in range(k + 1):
        for i in list(pending):
            typ, slots = spec[i]
            vals = []
            ok = True
            for kind, v in slots:
                if kind == 's':
                    vals.append(v)
                elif objs[v] is None:
                    ok = False
                else:
                    vals.append(objs[v])
            if ok:
                objs[i] = tuple(vals) if typ == 'tuple' else set(vals)
                pending.remove(i)
    if pending:
        raise Unbuildable()
    for i, (typ, slots) in enumerate(spec):
        if typ == 'set' and len(objs[i]) != len(slots):
            raise Unbuildable()     # two members that are equal in Python ((), () or (1,), (True,)) collapsed into one
    for i, (typ, slots) in enumerate(spec):
        if typ == 'list':
            for kind, v in slots:
                objs[i].append(v if kind == 's' else objs[v])
        elif typ == 'dict':
            for n, (kind, v) in enumerate(slots):
                objs[i][f'k{n}'] = v if kind == 's' else objs[v]
        elif typ == 'dictk':
            for n, (kind, v) in enumerate(slots):
                objs[i][('k', n)] = v if kind == 's' else objs[v]
        elif typ == 'obj':
            for n, (kind, v) in enumerate(slots):
                setattr(objs[i], f'a{n}', v if kind == 's' else objs[v])
    return objs[0]


class Unbuildable(Exception):
    pass


def expected(spec, i=0, depth=0):
    typ, slots = spec[i]
    vals = [base_value(v) if kind == 's' else expected(spec, v, depth + 1) for kind, v in slots]
    if typ in ('list', 'tuple'):
        return vals
    if typ == 'dict':
        return {f'k{n}': v for n, v in enumerate(vals)}
    if typ == 'dictk':
        return {('k', n): v for n, v in enumerate(vals)}
    if typ == 'obj':
        return {'#class': 'Node', **{f'a{n}': v for n, v in enumerate(vals)}}
    return Bag(vals)


CYCLE = '<cycle>'


def expected_with_placeholders(spec, i=0, stack=()):
    """The original with every back edge (edge to a container that is being expanded) replaced by a placeholder."""
    typ, slots = spec[i]
    vals = []
    for kind, v in slots:
        if kind == 's':
            vals.append(base_value(v))
        elif v == i or v in stack:
            vals.append(CYCLE)
        else:
            vals.append(expected_with_placeholders(spec, v, stack + (i,)))
    if typ in ('list', 'tuple'):
        return vals
    if typ == 'dict':
        return {f'k{n}': v for n, v in enumerate(vals)}
    if typ == 'dictk':
        return {('k', n): v for n, v in enumerate(vals)}
    if typ == 'obj':
        return {'#class': 'Node', **{f'a{n}': v for n, v in enumerate(vals)}}
    return Bag(vals)


def as_key(v):
    return tuple(as_key(x) for x in v) if isinstance(v, list) else v


def plain_with_placeholders(tree):
    from graphtage.builder import CyclicReference
    from graphtage.pydiff import PyObj
    import graphtage
    if isinstance(tree, CyclicReference):
        return CYCLE
    if isinstance(tree, PyObj):
        return {'#class': plain(tree.class_name), **{plain(k.key): plain_with_placeholders(k.value) for k in tree.attrs}}
    if isinstance(tree, graphtage.KeyValuePairNode):
        from mc.gen import Pair
        return Pair(plain_with_placeholders(tree.key), plain_with_placeholders(tree.value))
    if isinstance(tree, graphtage.MappingNode):
        return {as_key(plain_with_placeholders(k.key)): plain_with_placeholders(k.value) for k in tree}
    if isinstance(tree, graphtage.MultiSetNode):
        return Bag([plain_with_placeholders(c) for c in tree])
    if isinstance(tree, graphtage.ListNode):
        return [plain_with_placeholders(c) for c in tree._children]
    return base_value(plain(tree))


def has_set(spec):
    return any(t == 'set' for t, _ in spec)


def has_obj(spec):
    return any(t == 'obj' for t, _ in spec)


def option_faults(tree, options):
    """Every mapping and list of the tree, at any depth, must have been built according to the options."""
    import graphtage
    out = []
    for node in tree.dfs():
        if isinstance(node, graphtage.MappingNode):
            want = graphtage.DictNode if options.allow_key_edits else graphtage.FixedKeyDictNode
            if not isinstance(node, want):
                out.append(f'mapping built as {type(node).__name__}')
            elif options.allow_key_edits and node.auto_match_keys != options.auto_match_keys:
                out.append(f'mapping has auto_match_keys={node.auto_match_keys}')
        elif isinstance(node, graphtage.ListNode) and not isinstance(node, graphtage.StringNode):
            got = (node.allow_list_edits, node.allow_list_edits_when_same_length)
            if got != (options.allow_list_edits, options.allow_list_edits_when_same_length):
                out.append(f'list has (allow_list_edits, when_same_length)={got}')
    return out


def norm_obj(o):
    """Normalise a to_obj() result: Counter -> Bag, tuple -> list."""
    from collections import Counter
    if isinstance(o, Counter):
        return Bag([norm_obj(x) for x in o.elements()])
    if isinstance(o, dict):
        return {norm_key(k): norm_obj(v) for k, v in o.items()}
    if isinstance(o, (list, tuple)):
        return [norm_obj(x) for x in o]
    return base_value(o)


def norm_key(k):
    return base_value(k)


class Holder:
    def __init__(self, target):
        self.target = target
        self.n = 1


class Rec:
    pass


def make_rec(attrs):
    r = Rec()
    for k, v in attrs.items():
        setattr(r, k, v)
    return r


REC_ATTRS = [{'x': 1}, {'x': 1, 'y': 2}, {'y': [1]}, {}, {'x': 'a', 'z': None}]


def rec_history_eval(first, second):
    """Convert two instances of one class, with different attribute sets, one after the other (pristine fork)."""
    from graphtage import pydiff
    from mc.script import plain as _plain
    pydiff.build_tree(make_rec(REC_ATTRS[first]))
    obj = make_rec(REC_ATTRS[second])
    tree = pydiff.build_tree(obj)
    got = {}
    for kvp in tree.attrs:
        got[_plain(kvp.key)] = _plain(kvp.value)
    return got


ENTRY = ('json', 'basic', 'pydiff')


def convert(entry, obj, ds, check, ignore, lm='on'):
    from graphtage.graphtage import BuildOptions
    o = build_options((ds, lm))
    o.check_for_cycles = check
    o.ignore_cycles = ignore
    if entry == 'json':
        from graphtage import json as gj
        return gj.build_tree(obj, o)
    if entry == 'basic':
        from graphtage.builder import BasicBuilder
        return BasicBuilder(o).build_tree(obj)
    from graphtage import pydiff
    return pydiff.build_tree(obj, o)


def contains_cyclic_reference(tree):
    from graphtage.builder import CyclicReference
    return any(isinstance(n, CyclicReference) for n in tree.dfs())


def evaluate(spec, wrap):
    """spec: graph; wrap: False | True (root is a custom object whose attribute points at container 0).
    Returns (runs, failures list, outcomes)."""
    spec = tuple((t, tuple(tuple(s) for s in slots)) for t, slots in spec)
    cls = classify(spec)
    try:
        root = construct(spec)
    except Unbuildable:
        return 0, [], set()
    fails = {}
    outs = set()
    runs = 0
    exp = expected(spec) if cls != 'cyclic' else None
    objs = has_obj(spec)
    for entry in ENTRY:
        if (wrap or objs) and entry != 'pydiff':
            continue
        for ds in DICT_STRATEGIES:
            if cls == 'cyclic':
                copts = ((True, False, 'on'), (True, True, 'on'))
            else:
                copts = ((True, False, 'on'), (True, True, 'on'), (False, False, 'on'), (False, True, 'on'),
                         (True, False, 'off'), (True, False, 'samelen'))
            for check, ignore, lm in copts:
                obj = Holder(root) if wrap else root
                runs += 1
                tag = f'{entry}, dict={ds}, lists={lm}, check_for_cycles={check}, ignore_cycles={ignore}'
                try:
                    with time_limit(CASE_TIMEOUT):
                        tree = convert(entry, obj, ds, check, ignore, lm)
                        err = None
                except CaseTimeout:
                    fails.setdefault(f'conversion_does_not_terminate @ {entry} : {cls} graph, check={check}, ignore={ignore}', tag)
                    continue
                except RecursionError as e:
                    err = e
                except Exception as e:  # noqa
                    err = e
                if cls == 'cyclic':
                    if entry == 'json':
                        if err is None:
                            fails.setdefault(f'cyclic_input_converted_without_error @ json.build_tree : dict={ds}', tag)
                        outs.add(h((entry, 'cyclic', type(err).__name__)))
                        continue
                    if ignore:
                        if err is not None:
                            fails.setdefault(f'cycle_not_ignored {type(err).__name__} @ {site_of(err)} : {entry}, wrap={wrap}', f'{tag}: {err!r}')
                        elif not contains_cyclic_reference(tree):
                            fails.setdefault(f'no_placeholder_for_ignored_cycle @ {entry} : wrap={wrap}', tag)
                        elif not wrap:
                            try:
                                got = plain_with_placeholders(tree)
                                want = expected_with_placeholders(spec)
                                if canon(got) != canon(want):
                                    fails.setdefault(f'tree_with_ignored_cycle_differs_from_original @ {entry} : dict={ds}',
                                                     f'{tag}: expected {want!r}, tree {got!r}')
                            except Exception as e:  # noqa
                                fails.setdefault(f'tree_unreadable {type(e).__name__} @ {entry} : ignored cycle', f'{tag}: {e!r}')
                        if err is None and contains_cyclic_reference(tree):
                            # "a tree can be deep-copied to an equal tree" holds for trees with placeholders too, and
                            # converting the same object twice gives equal trees
                            try:
                                cp = tree.copy()
                                if not (cp == tree) or not (tree == cp):
                                    fails.setdefault(f'copy_not_equal @ {type(tree).__name__}.copy : {entry}, tree with a cycle placeholder', tag)
                                again = convert(entry, obj, ds, check, ignore, lm)
                                if not (again == tree):
                                    fails.setdefault(f'same_object_converted_twice_differs @ {entry} : tree with a cycle placeholder', tag)
                            except Exception as e:  # noqa
                                fails.setdefault(f'copy_raised {type(e).__name__} @ {site_of(e)} : {entry}, tree with a cycle placeholder', f'{tag}: {e!r}')
                        outs.add(h((entry, 'ignored')))
                    else:
                        if err is None:
                            fails.setdefault(f'cycle_not_reported @ {entry} : wrap={wrap}', tag)
                        elif not isinstance(err, ValueError) or 'cycle' not in str(err).lower():
                            fails.setdefault(f'cycle_reported_as {type(err).__name__} @ {site_of(err)} : {entry}, wrap={wrap}', f'{tag}: {str(err)[:200]}')
                        outs.add(h((entry, 'reported')))
                    continue
                # acyclic (tree or dag)
                if err is not None:
                    if entry == 'json' and has_set(spec) and isinstance(err, ValueError) and 'Unsupported' in str(err):
                        continue        # json.build_tree does not accept sets (documented input types)
                    if entry == 'json' and any(t == 'dictk' for t, _ in spec) and isinstance(err, ValueError) and 'expected to be an int or string' in str(err):
                        continue        # nor mapping keys other than int / str
                    what = 'shared_object_mistaken_for_cycle' if (isinstance(err, ValueError) and 'cycle' in str(err).lower()) else f'conversion_raised {type(err).__name__}'
                    fails.setdefault(f'{what} @ {site_of(err)} : {entry}, {cls} graph', f'{tag}: {str(err)[:200]}')
                    continue
                if contains_cyclic_reference(tree):
                    fails.setdefault(f'placeholder_in_acyclic_graph @ {entry} : {cls} graph', tag)
                    continue
                faults = option_faults(tree, build_options((ds, lm)))
                if faults:
                    fails.setdefault(f'node_not_built_according_to_options @ {entry} : dict={ds}, lists={lm}', f'{tag}: {faults[0]}')
                    continue
                if wrap or objs:
                    try:
                        cp = tree.copy()
                        if not (cp == tree) or not (tree == cp) or not (convert(entry, obj, ds, check, ignore, lm) == tree):
                            fails.setdefault(f'copy_not_equal @ {type(tree).__name__}.copy : {entry}, custom objects', tag)
                            continue
                    except Exception as e:  # noqa
                        fails.setdefault(f'copy_raised {type(e).__name__} @ {site_of(e)} : {entry}, custom objects', f'{tag}: {e!r}')
                        continue
                if wrap:
                    outs.add(h((entry, 'wrapped ok')))
                    continue
                if objs:
                    try:
                        got = plain_with_placeholders(tree)
                        if canon(got) != canon(exp):
                            fails.setdefault(f'tree_structure_differs_from_original @ {entry} : custom objects, dict={ds}', f'{tag}: {got!r} vs {exp!r}')
                            continue
                    except Exception as e:  # noqa
                        fails.setdefault(f'tree_unreadable {type(e).__name__} @ {entry} : custom objects', f'{tag}: {e!r}')
                        continue
                    outs.add(h((entry, ds, 'objects', canon(exp))))
                    continue
                try:
                    raw = tree.to_obj()
                except Exception as e:  # noqa
                    fails.setdefault(f'to_obj_raised {type(e).__name__} @ {site_of(e)} : {entry}, dict={ds}', f'{tag}: {e!r}')
                    continue
                try:
                    got = norm_obj(raw)
                    same = canon(got) == canon(exp)
                except TypeError:
                    got, same = raw, False      # the value contains things that are not plain Python data (e.g. tree nodes)
                except Exception as e:  # noqa
                    fails.setdefault(f'to_obj_raised {type(e).__name__} @ {site_of(e)} : {entry}, dict={ds}', f'{tag}: {e!r}')
                    continue
                if not same:
                    fails.setdefault(f'to_obj_differs_from_original @ {type(tree).__name__}.to_obj : {entry}, dict={ds}', f'{tag}: original {exp!r}, to_obj {got!r}')
                    continue
                try:
                    if canon(plain_with_placeholders(tree)) != canon(exp):
                        fails.setdefault(f'tree_structure_differs_from_original @ {entry} : dict={ds}', f'{tag}: {plain_with_placeholders(tree)!r} vs {exp!r}')
                        continue
                except Exception as e:  # noqa
                    fails.setdefault(f'tree_unreadable {type(e).__name__} @ {entry} : dict={ds}', f'{tag}: {e!r}')
                    continue
                try:
                    cp = tree.copy()
                    if not (cp == tree) or canon(plain_with_placeholders(cp)) != canon(exp):
                        fails.setdefault(f'copy_not_equal @ {type(tree).__name__}.copy : {entry}, dict={ds}', tag)
                        continue
                except Exception as e:  # noqa
                    fails.setdefault(f'copy_raised {type(e).__name__} @ {site_of(e)} : {entry}, dict={ds}', f'{tag}: {e!r}')
                    continue
                outs.add(h((entry, ds, canon(exp))))
    return runs, [{'key': k, 'detail': f'graph {spec!r} ({cls}) wrap={wrap}: {d}'} for k, d in fails.items()], outs


# ---- one builder object used for several conversions ----------------------------------------------------------------------
def builder_history_cases(tier):
    """Cyclic graphs over mutable containers (the back edges can be taken out again)."""
    q = tier == 'quick'
    seen = set()
    for spec in itertools.chain(specs(2, (1,), maxslots=2, types=('list', 'dict')),
                                specs(3, (1,), maxslots=2, types=('list',) if q else ('list', 'dict'))):
        if classify(spec) == 'cyclic' and repr(spec) not in seen:
            seen.add(repr(spec))
            yield spec


def break_cycles(spec, objs_root):
    """Remove every back edge from the *constructed objects* (same identities). Returns the acyclic spec."""
    k = len(spec)
    objs = collect(spec, objs_root)
    color = [0] * k
    new_slots = [list(slots) for _, slots in spec]

    def dfs(i):
        color[i] = 1
        for n, (kind, v) in enumerate(spec[i][1]):
            if kind == 'e':
                if color[v] == 1:
                    new_slots[i][n] = None
                elif color[v] == 0:
                    dfs(v)
        color[i] = 2
    dfs(0)
    for i, (typ, slots) in enumerate(spec):
        if typ == 'list':
            objs[i][:] = [x for n, x in enumerate(objs[i]) if new_slots[i][n] is not None]
        else:
            for n in range(len(slots)):
                if new_slots[i][n] is None:
                    del objs[i][f'k{n}']
    return objs


def collect(spec, root):
    """The constructed container of every spec node, found by walking the objects along the spec."""
    objs = [None] * len(spec)
    objs[0] = root
    stack = [0]
    done = set()
    while stack:
        i = stack.pop()
        if i in done:
            continue
        done.add(i)
        typ, slots = spec[i]
        for n, (kind, v) in enumerate(slots):
            if kind == 'e':
                child = objs[i][n] if typ == 'list' else objs[i][f'k{n}']
                if objs[v] is None:
                    objs[v] = child
                stack.append(v)
    return objs


def builder_history_eval(spec, which):
    """One builder: a cyclic document (rejected), then the same objects with the cycle taken out, then again."""
    from graphtage.builder import BasicBuilder
    from graphtage.pydiff import PyObjBuilder
    spec = tuple((t, tuple(tuple(x) for x in slots)) for t, slots in spec)
    fails = []
    for ignore_later in (False, True):
        root = construct(spec)
        o = build_options(('auto', 'on'))
        o.check_for_cycles, o.ignore_cycles = True, False
        b = (BasicBuilder if which == 'basic' else PyObjBuilder)(o)
        try:
            with time_limit(CASE_TIMEOUT):
                try:
                    b.build_tree(root)
                    return [{'key': f'cycle_not_reported @ {which} : builder history', 'detail': repr(spec)}]
                except ValueError:
                    pass
                break_cycles(spec, root)
                if ignore_later:
                    b.options.ignore_cycles = True
                for attempt in (1, 2):
                    try:
                        got = b.build_tree(root)
                    except Exception as e:  # noqa
                        return [{'key': f'acyclic_document_rejected {type(e).__name__} @ {site_of(e)} : {which} builder that rejected a cyclic document before',
                                 'detail': f'{spec!r}: after the cycle was taken out, conversion {attempt} on the same builder: {e!r}'}]
                    o2 = build_options(('auto', 'on'))
                    o2.check_for_cycles, o2.ignore_cycles = True, ignore_later
                    want = (BasicBuilder if which == 'basic' else PyObjBuilder)(o2).build_tree(root)
                    if contains_cyclic_reference(got) or not (got == want):
                        return [{'key': f'conversion_depends_on_builder_history @ {which} : after a rejected cyclic document',
                                 'detail': f'{spec!r}: same builder gives {plain_with_placeholders(got)!r}, a fresh builder {plain_with_placeholders(want)!r}'}]
        except CaseTimeout:
            return [{'key': f'conversion_does_not_terminate @ {which} : builder history', 'detail': repr(spec)}]
    return fails


# ---- defining another builder class must not change what the existing ones do ----------------------------------------------
import collections as _collections

Point = _collections.namedtuple('Point', 'x y')


class Money:
    def __init__(self, cents):
        self.cents = cents


def subclass_history_eval(which):
    """In a pristine process: convert a few documents, define a Builder subclass with handlers of its own (never used), convert
    the same documents again through the *other* builder classes. Returns a list of differences."""
    from graphtage.builder import BasicBuilder, Builder
    from graphtage import pydiff, IntegerNode, StringNode
    from graphtage import json as gj

    def snapshot():
        out = {}
        for name, doc in (('namedtuple', [Point(1, 2)]), ('tuple', (1, (2, 3))), ('mapping', {'a': [1, {'b': 2}]}), ('set', {1, 2}),
                          ('custom', Money(250))):
            for entry in ('basic', 'pydiff', 'json'):
                if entry == 'json' and name in ('set', 'custom'):
                    continue
                try:
                    t = convert(entry, doc, 'auto', True, False)
                    out[(name, entry)] = repr(plain_with_placeholders(t)) + ' as ' + type(t).__name__
                except Exception as e:  # noqa
                    out[(name, entry)] = f'raises {type(e).__name__}'
        return out

    before = snapshot()
    base = BasicBuilder if which == 'basic' else pydiff.PyObjBuilder

    class Custom(base):         # noqa: defined, never instantiated
        @Builder.builder(Point)
        def build_point(self, obj, children):
            return StringNode(f'{obj.x},{obj.y}')

        @Builder.expander(Point)
        def expand_point(self, obj):
            return ()

        @Builder.builder(Money)
        def build_money(self, obj, children):
            return IntegerNode(obj.cents)

    after = snapshot()
    return [f'{k[0]} through {k[1]}: {before[k]} before, {after[k]} after a {base.__name__} subclass was defined'
            for k in sorted(before) if before[k] != after[k]]


def all_specs(tier):
    q = tier == 'quick'
    yield from specs(1, SUBCLASS_SCALARS, maxslots=1)
    yield from specs(2, SUBCLASS_SCALARS[:2] if q else SUBCLASS_SCALARS, maxslots=1, types=('list', 'dict', 'tuple'))
    yield from specs(1, (1, 'a'), types=('dictk',))
    yield from specs(2, (1, 'a'), types=('dictk', 'tuple', 'set', 'list'))
    if not q:
        yield from specs(3, (1,), maxslots=2, types=('set', 'tuple', 'dictk'))
    yield from specs(1, (1, 1.5, True, 'a', None, NAN))
    yield from specs(2, (1, 1.5, True, 'a', None) if not q else (1, 'a', None))
    if q:
        yield from specs(3, (1,), maxslots=1)
        yield from specs(3, (1,), maxslots=2, types=('list',))
    else:
        yield from specs(3, (1, 'a'), maxslots=2, types=('list', 'dict'))
        yield from specs(3, (1,), maxslots=2)
        yield from specs(4, (1,), maxslots=1)


def object_specs(tier):
    """Graphs whose nodes are custom objects (and lists): rings, self references, sharing - pydiff entry point."""
    q = tier == 'quick'
    yield from specs(1, (1, 'a'), types=('obj',))
    yield from specs(2, (1,), types=('obj', 'list'))
    yield from specs(3, (1,), maxslots=2 if not q else 1, types=('obj',))
    if not q:
        yield from specs(3, (1,), maxslots=1, types=('obj', 'list', 'dict'))
        yield from specs(4, (1,), maxslots=1, types=('obj',))


def jobs(tier):
    seen = set()
    for spec in itertools.chain(all_specs(tier), (sp for sp in object_specs(tier) if has_obj(sp))):
        key = repr(spec)
        if key in seen:
            continue
        seen.add(key)
        yield spec, False
        if len(spec) <= 2:
            yield spec, True


def _shard(i, n, tier, payload):
    r = Result()
    kinds = {}
    for idx, (spec, wrap) in enumerate(jobs(tier)):
        if idx % n != i:
            continue
        runs, fails, outs = evaluate(spec, wrap)
        r.evaluations += runs
        r.outcomes |= outs
        c = classify(spec)
        kinds[c] = kinds.get(c, 0) + 1
        for f in fails:
            r.fail(f['key'], {'spec': [[t, [list(s) for s in slots]] for t, slots in spec], 'wrap': wrap, 'expect': f['key']}, f['detail'], order=idx)
        if idx % 4999 == 0 and len(r.samples) < 4:
            r.samples.append({'graph': [[t, [list(s) for s in slots]] for t, slots in spec], 'class': c, 'wrapped_in_object': wrap})
    r.extra['graphs_by_class'] = kinds
    for hidx, hspec in enumerate(builder_history_cases(tier)):
        if hidx % n != i:
            continue
        for which in ('basic', 'pydiff'):
            r.evaluations += 1
            hf = builder_history_eval(hspec, which)
            for f in hf:
                r.fail(f['key'], {'builder_history': [[t, [list(x) for x in slots]] for t, slots in hspec], 'which': which}, f['detail'], order=3 * 10 ** 8 + hidx)
            if not hf:
                r.outcomes.add(h(('bh', hidx, which)))
    from props.c07_pure import in_fresh_child
    for wi, which in enumerate(('basic', 'pydiff')):
        if wi % n == i % 2 and i < 2:
            r.evaluations += 1
            st, diffs = in_fresh_child(subclass_history_eval, which)
            if st != 'ok':
                r.fail('subclass_history_raised @ harness', {'subclass_history': which}, str(diffs), order=4 * 10 ** 8 + wi)
            elif diffs:
                r.fail(f'conversion_depends_on_other_builder_classes @ Builder.__init_subclass__ : after a {which} subclass was defined',
                       {'subclass_history': which}, '; '.join(diffs)[:600], order=4 * 10 ** 8 + wi)
            else:
                r.outcomes.add(h(('subclass', which)))
    # custom objects: every ordered pair of attribute sets, each sequence in a pristine forked process
    j = 0
    for a in range(len(REC_ATTRS)):
        for b in range(len(REC_ATTRS)):
            if j % n == i:
                res = in_fresh_child(lambda ab: rec_history_eval(*ab), (a, b))
                r.evaluations += 1
                want = REC_ATTRS[b]
                if res[0] != 'ok':
                    r.fail(f'custom_object_conversion_raised @ pydiff.build_tree : second instance of a class', {'rec': [a, b]}, str(res[1]), order=10 ** 8 + j)
                elif canon(res[1]) != canon(want):
                    r.fail(f'custom_object_attributes_differ @ pydiff.build_tree : second instance of a class with other attributes',
                           {'rec': [a, b]}, f'after converting Rec{REC_ATTRS[a]}: Rec{want} became attributes {res[1]!r}', order=10 ** 8 + j)
                else:
                    r.outcomes.add(h(('rec', a, b)))
            j += 1
    return r


def run(ctx):
    return run_sharded(ctx, __name__, '_shard', ctx.workers * 4)


def replay(case):
    if 'subclass_history' in case:
        from props.c07_pure import in_fresh_child
        st, diffs = in_fresh_child(subclass_history_eval, case['subclass_history'])
        if st != 'ok':
            return {'key': 'subclass_history_raised @ harness', 'detail': str(diffs)}
        if diffs:
            return {'key': f'conversion_depends_on_other_builder_classes @ Builder.__init_subclass__ : after a {case["subclass_history"]} subclass was defined', 'detail': '; '.join(diffs)[:600]}
        return None
    if 'builder_history' in case:
        fs = builder_history_eval(case['builder_history'], case['which'])
        return fs[0] if fs else None
    if 'rec' in case:
        from props.c07_pure import in_fresh_child
        a, b = case['rec']
        res = in_fresh_child(lambda ab: rec_history_eval(*ab), (a, b))
        if res[0] != 'ok':
            return {'key': 'custom_object_conversion_raised @ pydiff.build_tree : second instance of a class', 'detail': str(res[1])}
        if canon(res[1]) != canon(REC_ATTRS[b]):
            return {'key': 'custom_object_attributes_differ @ pydiff.build_tree : second instance of a class with other attributes', 'detail': repr(res[1])}
        return None
    spec = tuple((t, tuple(tuple(s) for s in slots)) for t, slots in case['spec'])
    _, fails, _ = evaluate(spec, case['wrap'])
    for f in fails:
        if f['key'] == case.get('expect'):
            return f
    return fails[0] if fails else None

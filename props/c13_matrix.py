"""C13 - any input type can be rendered in any output format and mode.

E1 over the complete configuration matrix: input type (8) x --format (8 + absent) x mode {full, -e, -d} x
{--no-color, --color, --html, --html --color} x {plain, -j} x {documents with differences, identical documents} x document pairs,
through in-process graphtage.__main__.main. Oracle: no exception escapes main, nothing that looks like a traceback on
stderr, exit status in {0, 1} and consistent with "with / without differences".
"""
import collections
import fractions
import json
import os
import pickle
import plistlib
import traceback

from mc.run import Result, h, time_limit, CaseTimeout, run_sharded
from mc import pairspace, cli

ID = 'C13'
LEVEL = 'model_checking'
CASE_TIMEOUT = 60
TYPES = ('json', 'json5', 'yaml', 'csv', 'xml', 'html', 'plist', 'pickle')
MODES = ([], ['-e'], ['-d'])
RENDER = (['--no-color'], ['--color'], ['--html'], ['--html', '--color'])
LAYOUT = ([], ['-j'])
OPTION_FLAGS = (['-k'], ['--dict-strategy', 'match'], ['-l'], ['-ll'], ['--match-if', 'from == to'], ['--match-unless', 'from == to'],
                ['--match-if', 'len(from) > 0'], ['--match-unless', 'from.object == 1'])
RULE = ('the complete matrix input type x output format x mode x colour/html x condensed x {different, identical} x '
        'document pairs per input type; distinct = distinct (configuration, exit status, output bytes)')
ASSUMPTIONS = ['in-process main() on capture streams (C07 leg 4 confirms equivalence with a real process)',
               'documents are small; the matrix, not the document space, is what is exhaustive here']
MANIFEST = {
    'technique': 'exhaustive enumeration of the finite configuration matrix on the real command-line entry point',
    'text': 'All 3456 combinations of input type, output format, output mode, colour/HTML and condensed layout, for '
            'documents with and without differences (quick: 1 document pair per type under the full matrix + 7 branch-targeting pairs under type x format x mode x colour/html; thorough: all 8 pairs under the full matrix), are run through main(); none '
            'may end in an internal error and the exit status must reflect whether the documents differ.',
    'note': 'The matrix is complete; the documents per cell are few.',
    'design_ref': 'DESIGN.md 4/C13',
}

DOCS = [
    ({'k1': 1, 'k2': [1, 2, 3], 'k3': 'abc', 'k4': {'x': 1}, 'k6': True}, {'k1': 2, 'k2': [1, 3], 'k3': 'abd', 'k7': [None]}),
    ([1, 'two', [3, {'a': 'b'}]], [1, 'too', [{'a': 'c'}, 4], 5]),
    ('some text', 'same text'),
    # non-string mapping keys (expressible in YAML and pickle only; other types get the string-keyed variant)
    ({80: 'http', True: 'enabled', 1.5: 'x', 'plain': 1}, {80: 'https', False: 'enabled', 2.5: 'x', 'plain': 2}),
    ({'e': {}, 'l': [], 's': '', 'n': None, 'deep': [[], [{}]]}, {'e': [], 'l': {}, 's': 'x', 'deep': [[{}], []]}),
    # multi-line strings: edited, and wholly removed from / inserted into lists (a removal and an insertion in one mapping
    # would be paired into one edit by the matcher)
    ({'t': 'line1\nline2', 'x': '<a&b>"q"', 'u': '\u00e9\u4e2d', 'lst': ['x', 'r1\nr2'], 'lst2': ['y']},
     {'t': 'line1\nline3\n', 'x': '<a&c>\'q\'', 'u': '\u00e8', 'lst': ['x'], 'lst2': ['y', 'p\nq\n']}),
    ({'i': -1, 'f': 1.5, 'big': 2 ** 40, 'b': False, 'nan': float('nan'), 'inf': float('inf'), 'blank': ' ', 'tab': '\t x', 'lines': 'a\n  \nb'},
     {'i': 1, 'f': -2.25, 'big': 2 ** 40 + 1, 'b': True, 'nan': float('nan'), 'inf': float('-inf'), 'blank': '   ', 'gone': ' ', 'lines': 'a\n \nc'}),
    ({'colour': [1, 2], 'name': 'x', 'same': 'y'}, {'color': [1, 2], 'nome': 'x', 'same': 'y'}),
    # containers with more than ten members (abbreviating reprs, column layouts and the like have thresholds)
    (dict({f'k{i:02d}': i for i in range(12)}, gone=1, lst=list(range(12))), dict({f'k{i:02d}': i for i in range(12)}, new=2, lst=list(range(1, 13)))),
]
XMLS = [
    ('<root a="1" b="2"><item id="1">one</item><item id="2">two</item><x/></root>',
     '<root a="1" c="3"><item id="1">uno</item><y k="v"/><item id="3">three</item></root>'),
    ('<a>text</a>', '<a><b/>more</a>'),
    ('<html><body><p class="x">hi</p></body></html>', '<html><body><p>ho</p><br/></body></html>'),
    ('<r><item id="1"/><k/><m>gone</m></r>', '<r><item id="2">hello</item><k>t</k><m/></r>'),
    ('<r><a><b><c>deep</c></b></a></r>', '<r><a/></r>'),
    ('<r><t>line1\nline2</t><u> padded </u><gone>g1\ng2</gone></r>', '<r><t>line1\nline3\nline4</t><u>padded</u></r>'),
    ('<r a="1" b="2" c="3"/>', '<r a="1" b="3" d="4"/>'),
    ('<r x="&lt;&amp;&quot;">a &amp; b &lt; c</r>', '<r x="&gt;&amp;">a &amp; b &gt; c</r>'),
    ('<r ' + ' '.join(f'a{i:02d}="{i}"' for i in range(12)) + ' gone="1">' + ''.join(f'<c{i}/>' for i in range(12)) + '</r>',
     '<r ' + ' '.join(f'a{i:02d}="{i}"' for i in range(12)) + ' new="2">' + ''.join(f'<c{i}/>' for i in range(1, 13)) + '</r>'),
]
CSVS = [
    ('name,qty\napple,1\npear,2\nfig,3\n', 'name,qty\napple,1\nplum,2\n'),
    ('a\n', 'a,b\nc\n'),
    ('x,y\n1,2\n', 'x,y\n1,3\n'),
    ('"q,1","say ""hi"""\n,\n', '"q,2","say ""ho"""\n,x\n'),
    ('a,b,c\n1\n', 'a\n1,2,3\n'),
    ('"multi\nline",z\n"gone\nrow",w\nlast,row\n', '"multi\nlines",z\nlast,row\n'),
    ('1,2\n3,4\n', '3,4\n1,2\n'),
    ('\n\n', 'a\n'),
    (','.join(f'h{i}' for i in range(12)) + '\n' + '\n'.join(','.join(str(i * j) for i in range(12)) for j in range(12)) + '\n',
     ','.join(f'h{i}' for i in range(12)) + '\n' + '\n'.join(','.join(str(i * j) for i in range(12)) for j in range(1, 13)) + '\n'),
]


PICKLE_DOCS = {
    5: ({'b': b'ab', 't': (1, (2, 3)), 's': {1, 2}, b'id': 7, b'was': 1}, {'b': b'ac', 't': (1, (2, 4)), 's': {2, 3}, b'id': 7, b'now': 2}),
    6: ([b'x', 'x', bytearray(b'xy'), complex(1, 2), {'a': 1}, {2, 3}], ['x', b'x', bytearray(b'xz'), complex(1, 3), {1}, {'b': 2}]),
    2: (b'some bytes', b'same bytes'),
    # instances of dict subclasses with one item (unpickled through item assignment), two items, and a class instance
    8: ({'prefs': collections.OrderedDict(theme='dark'), 'two': collections.OrderedDict(a=1, b=2), 'dd': collections.defaultdict(int, n=1),
         'frac': fractions.Fraction(1, 3), 'gone': collections.OrderedDict(x=1)},
        {'prefs': collections.OrderedDict(theme='light'), 'two': collections.OrderedDict(a=1, c=2), 'dd': collections.defaultdict(int, m=1),
         'frac': fractions.Fraction(2, 3), 'new': collections.OrderedDict(y=1)}),
}


def string_keys(v):
    if isinstance(v, dict):
        return {(k if isinstance(k, str) else 'k' + str(k)): string_keys(x) for k, x in v.items()}
    if isinstance(v, list):
        return [string_keys(x) for x in v]
    return v


def plist_safe(v):
    if isinstance(v, dict):
        return {k: plist_safe(x) for k, x in v.items() if x is not None}
    if isinstance(v, list):
        return [plist_safe(x) for x in v if x is not None]
    return v


def content(typ, which, side):
    """File content (str or bytes) of document pair number `which`, side 0/1, for an input type."""
    if typ in ('xml', 'html'):
        return XMLS[which][side]
    if typ == 'csv':
        return CSVS[which][side]
    doc = DOCS[which][side]
    if typ not in ('yaml', 'pickle'):
        doc = string_keys(doc)
    if typ in ('json', 'json5'):
        return json.dumps(doc)
    if typ == 'yaml':
        import yaml
        return yaml.safe_dump(doc)
    if typ == 'plist':
        d = plist_safe(doc)
        return plistlib.dumps(d if isinstance(d, (dict, list)) else [d])
    if typ == 'pickle':
        if which in PICKLE_DOCS:
            return pickle.dumps(PICKLE_DOCS[which][side], protocol=4)      # Python-only values: bytes, tuple, set, complex
        return pickle.dumps(doc, protocol=2)
    raise ValueError(typ)


EXT = {'json': 'json', 'json5': 'json5', 'yaml': 'yml', 'csv': 'csv', 'xml': 'xml', 'html': 'html', 'plist': 'plist', 'pickle': 'pkl'}


def configs(tier):
    # quick: document pair 0 under the complete matrix, the other pairs (which target particular formatter branches) under
    # every input type x output format x mode x colour/html, uncondensed; thorough: every pair under the complete matrix.
    # (Colour does select formatter branches: combining marks vs ANSI contexts, YAML block scalars under a colour.)
    nfull = 1 if tier == 'quick' else len(DOCS)
    for typ in TYPES:
        for fmt in (None,) + TYPES:
            for mode in MODES:
                for rend in RENDER:
                    for lay in LAYOUT:
                        for which in range(len(DOCS)):
                            if which == 0 and rend == RENDER[0] and lay == LAYOUT[0]:
                                # matching / constraint option flags (they select different edit classes to be rendered)
                                for flags in OPTION_FLAGS:
                                    for same in (False, True):
                                        for pr in ((7, 8) if flags and flags[0] in ('-k', '--dict-strategy') else (0,)):
                                            yield {'type': typ, 'format': fmt, 'mode': mode, 'render': rend, 'layout': lay,
                                                   'pair': pr, 'identical': same, 'flags': flags}
                            if which >= nfull and lay != LAYOUT[0]:
                                continue
                            for same in (False, True):
                                yield {'type': typ, 'format': fmt, 'mode': mode, 'render': rend, 'layout': lay,
                                       'pair': which, 'identical': same}


def frames(tb_text):
    out = []
    for line in tb_text.splitlines():
        line = line.strip()
        if line.startswith('File "') and '/graphtage/' in line:
            f = line.split('"')[1].rsplit('/', 1)[-1]
            fn = line.rsplit(' in ', 1)[-1]
            out.append(f'{f}:{fn}')
    return out


def contains_null(typ, cfg):
    def has(v):
        if v is None:
            return True
        if isinstance(v, dict):
            return any(has(k) or has(x) for k, x in v.items())
        if isinstance(v, (list, tuple, set)):
            return any(has(x) for x in v)
        return False
    if typ in ('xml', 'html', 'csv', 'plist'):
        return False
    which = cfg['pair']
    pair = PICKLE_DOCS[which] if (typ == 'pickle' and which in PICKLE_DOCS) else DOCS[which]
    return has(pair[0]) or (not cfg['identical'] and has(pair[1]))


def evaluate(cfg):
    dirp = pairspace.tmpdir()
    typ = cfg['type']
    fa = cli.write_file(dirp, f'm_a.{EXT[typ]}', content(typ, cfg['pair'], 0))
    fb = cli.write_file(dirp, f'm_b.{EXT[typ]}', content(typ, cfg['pair'], 0 if cfg['identical'] else 1))
    argv = ['--no-status'] + (['--format', cfg['format']] if cfg['format'] else []) + cfg['mode'] + cfg['render'] + cfg['layout'] + \
        list(cfg.get('flags') or []) + [fa, fb]
    mode = {(): 'full', ('-e',): 'edit-list', ('-d',): 'digest'}[tuple(cfg['mode'])]
    tag = f'input {typ}, format {cfg["format"] or "(own)"}, mode {mode}'
    try:
        with time_limit(CASE_TIMEOUT):
            o = cli.run_main(argv)
    except CaseTimeout:
        return {'key': f'timeout @ __main__.main : {tag}', 'detail': ' '.join(argv)}, None
    if o.exc and o.exc != 'SystemExit':
        fr = o.frames
        inner = fr[-1] if fr else 'unknown'
        via = next((f for f in reversed(fr[:-1]) if not f.startswith(('tree.py', 'formatter.py', 'printer.py', 'sequences.py',
                                                                      'edits.py', '__main__.py', 'graphtage.py'))), 'n/a')
        feat = ''
        if cfg['format'] == 'plist' and inner == 'plist.py:write_obj':
            # plist has no null: the one recorded finding is "a document that contains null cannot be rendered as plist"
            feat = ', document contains null' if contains_null(typ, cfg) else ', document without null'
        return {'key': f'internal_error {o.exc} @ {inner} via {via} : input {typ}, format {cfg["format"] or "(own)"}{feat}',
                'detail': f'mode {mode}: ' + ' '.join(argv) + '\n' + o.tb}, None
    if 'Traceback (most recent call last)' in o.err:
        return {'key': f'traceback_on_stderr @ __main__.main : {tag}', 'detail': o.err[-800:]}, None
    want = 0 if cfg['identical'] else 1
    if cfg.get('flags') and cfg['flags'][0].startswith('--match') and cfg['identical']:
        want = o.rc if o.rc in (0, 1) else want      # a constraint may force Replace edits even between identical documents
    if o.rc != want:
        return {'key': f'exit_status_{o.rc}_but_documents_{"identical" if cfg["identical"] else "differ"} @ __main__.main : {tag}',
                'detail': ' '.join(argv) + f'\nstdout: {o.out[:300]!r}\nstderr: {o.err[:300]!r}'}, None
    return None, h((json.dumps(cfg, sort_keys=True), o.rc, o.out))


def _shard(i, n, tier, payload):
    r = Result()
    for idx, cfg in enumerate(configs(tier)):
        if idx % n != i:
            continue
        r.evaluations += 1
        fail, out = evaluate(cfg)
        if fail:
            r.fail(fail['key'], cfg, fail['detail'], order=idx)
        else:
            r.outcomes.add(out)
        if idx % 1499 == 0 and len(r.samples) < 3:
            r.samples.append(cfg)
    return r


def run(ctx):
    res = run_sharded(ctx, __name__, '_shard', ctx.workers * 4)
    res.extra['matrix_cells'] = len(TYPES) * (len(TYPES) + 1) * len(MODES) * len(RENDER) * len(LAYOUT) * 2
    return res


def replay(case):
    fail, _ = evaluate(case)
    return fail

"""C02 - no edits are reported exactly when the two documents are equal.

E1: all document pairs with |A|+|B| <= N over a type-confusable scalar alphabet x relevant build options x three
entry points (library cost, rendered marks, command-line exit status). Oracle: independent, type-strict data
equality on the generated values:  cost == 0  <=>  equal  <=>  exit status 0  <=>  no change marks.
"""
import io
import json
import os

from mc.run import Result, h, time_limit, CaseTimeout, run_sharded
from mc import pairspace, cli
from mc.gen import DocSpace, canon, cli_flags
from mc.script import ABSENT, ScriptError, recon, refine, site_of, sub_edits, G

ID = 'C02'
LEVEL = 'model_checking'
CASE_TIMEOUT = 20
SCALARS = (1, '1', '', 5, True, 'True', None, 'None', 'a', 'b')
KEYS = ('a', 'b')
RULE = ('bounded-exhaustive: all JSON document pairs with |A|+|B| <= N over scalars ' + repr(SCALARS) +
        ' and keys a,b x build options that can influence the trees x {library, rendering, CLI}; XML pairs incl. '
        'whitespace-only text differences; distinct = distinct (equal?, cost, exit status, script shape)')
ASSUMPTIONS = ['int vs float of equal value (1 vs 1.0) and CSV tables differing only by blank rows are excluded as '
               'unspecified', 'CLI leg runs graphtage.__main__.main in-process on capture streams (see C07/C14 for the '
               'subprocess confirmation)']
MANIFEST = {
    'technique': 'bounded-exhaustive exploration of document pairs x options x entry points, independent equality oracle',
    'text': 'Every pair of small JSON documents over an alphabet of scalars chosen to collide textually (1/"1", ""/5, '
            'True/"True"/1, None/"None") is compared through the library, the JSON renderer and the command-line '
            'entry point; zero cost, absence of marks and exit status 0 must each coincide with type-strict data '
            'equality of the generated values. XML pairs add the whitespace-insensitive text rule.',
    'note': 'Bounded by N=4 (quick) / 5 (thorough) nodes in total; 1 vs 1.0 and blank CSV rows are declared unspecified.',
    'design_ref': 'DESIGN.md 4/C02',
}


def budget(tier):
    return 4 if tier == 'quick' else 5


def json_cases(tier):
    ds = DocSpace(SCALARS, KEYS, 3)
    for a, b in ds.pairs(budget(tier)):
        for opt in pairspace.relevant_options(a, b):
            yield {'kind': 'json', 'a': a, 'b': b, 'opt': list(opt)}
    # non-finite numbers: NaN is not equal to itself in Python, but a file holding NaN is equal to itself as data
    nf = DocSpace((float('nan'), float('inf'), float('-inf'), 'NaN', 1.5), ('a',), 3)
    for a, b in nf.pairs(4):
        for opt in pairspace.relevant_options(a, b):
            yield {'kind': 'json', 'a': a, 'b': b, 'opt': list(opt)}


def xml_cases(tier):
    els = pairspace.xml_elements('quick')
    extra = [{'tag': 'a', 'text': 't'}, {'tag': 'a', 'text': ' t'}, {'tag': 'a', 'text': 't\n'}, {'tag': 'a', 'text': ' '},
             {'tag': 'a'}, {'tag': 'a', 'text': 'T'}]
    for a in extra:
        for b in extra:
            yield {'kind': 'xml', 'a': a, 'b': b, 'opt': ['auto', 'on']}
    if tier == 'quick':
        # one tag, with and without text / attribute, 0-2 children: covers children, text and attributes appearing in or
        # vanishing from an element
        els = [e for e in els if e['tag'] == 'a' and e.get('text') in (None, 't') and len(e.get('children') or []) <= (1 if e.get('attrib') else 2)]
    for a in els:
        for b in els:
            yield {'kind': 'xml', 'a': a, 'b': b, 'opt': ['auto', 'on']}


def csv_cases(tier):
    tables = pairspace.csv_tables(('a', 'b'), 2, 2) if tier == 'quick' else pairspace.csv_tables(('a', 'b', ''), 2, 2)
    for a in tables:
        for b in tables:
            # tables that differ only by blank rows are equal by the code's own rule and unspecified by the property
            if [r for r in a if r] == [r for r in b if r] and a != b:
                continue
            yield {'kind': 'csv', 'a': a, 'b': b, 'opt': ['auto', 'on']}


def whitespace_cases(tier):
    """Strings that differ only in surrounding / inner blanks, or are blank, loaded from the formats whose loaders mark
    strings as unquoted (YAML, plist, CSV) as well as from JSON: string values, list items and mapping keys."""
    strs = ('x', ' x', 'x ', ' ', '', 'x y', 'x  y') if tier == 'quick' else ('x', ' x', 'x ', ' ', '', 'x y', 'x  y', '\tx', 'x\n', '  ')
    for kind in ('yaml', 'plist', 'json'):
        for shape in ('value', 'item', 'key', 'nested'):
            def doc(t):
                return {'k': t} if shape == 'value' else [t, 'z'] if shape == 'item' else {t: 1} if shape == 'key' else {'o': [{'i': t}]}
            for a in strs:
                for b in strs:
                    if kind == 'plist' and shape == 'key' and False:
                        continue
                    for opt in (['auto', 'on'], ['none', 'off']):
                        yield {'kind': kind, 'a': doc(a), 'b': doc(b), 'opt': opt}
    for a in strs:
        for b in strs:
            if not a or not b:
                continue        # a row holding one empty cell is a blank row for the CSV loader (excluded above)
            yield {'kind': 'csv', 'a': [['h', 'g'], [a, 'z']], 'b': [['h', 'g'], [b, 'z']], 'opt': ['auto', 'on']}


def all_cases(tier):
    idx = 0
    for gen in (json_cases(tier), xml_cases(tier), csv_cases(tier), whitespace_cases(tier)):
        for c in gen:
            yield idx, c
            idx += 1


def xml_equal(a, b):
    def norm(e):
        return (e['tag'], tuple(sorted((e.get('attrib') or {}).items())), (e.get('text') or '').strip(),
                tuple(norm(c) for c in e.get('children') or []))
    return norm(a) == norm(b)


def data_equal(case):
    if case['kind'] == 'xml':
        return xml_equal(case['a'], case['b'])
    if case['kind'] == 'csv':
        import csv as pycsv
        import io as _io

        def parsed(t):
            buf = _io.StringIO()
            pycsv.writer(buf).writerows(t)
            return list(pycsv.reader(_io.StringIO(buf.getvalue())))
        return parsed(case['a']) == parsed(case['b'])
    return canon(case['a']) == canon(case['b'])


def absorbing_site(e):
    """The deepest edit of cost 0 whose two sides differ as data (where an inequality was swallowed)."""
    g = G()
    for s in sub_edits(e):
        r = absorbing_site(s)
        if r:
            return r
    try:
        b = e.bounds()
        if not (b.definitive() and b.upper_bound == 0):
            return None
        a_side, b_side = recon(e)
    except Exception:  # noqa
        return None
    if a_side is ABSENT or b_side is ABSENT:
        node = e.from_node
        return f'{type(e).__name__} of {type(node).__name__.replace("Edited", "")} with cost 0'
    if canon(a_side) != canon(b_side):
        return (f'{type(e).__name__} {type(e.from_node).__name__.replace("Edited", "")} -> '
                f'{type(e.to_node).__name__.replace("Edited", "")} with cost 0')
    return None


def render(diff_tree, color, yaml=False):
    from graphtage.printer import Printer
    from graphtage.json import JSONFormatter
    from graphtage.yaml import YAMLFormatter
    from graphtage.xml import XMLFormatter, XMLElement
    cli.pin_colorama()
    buf = io.StringIO()
    p = Printer(buf, ansi_color=color, quiet=True)
    if isinstance(diff_tree, XMLElement):
        fmt = XMLFormatter.DEFAULT_INSTANCE
    else:
        fmt = YAMLFormatter.DEFAULT_INSTANCE if yaml else JSONFormatter.DEFAULT_INSTANCE
    fmt.print(p, diff_tree)
    return buf.getvalue()


def evaluate(case, with_cli=True):
    kind, opt = case['kind'], case['opt']
    eq = data_equal(case)
    tag = f'{kind} dict={opt[0]}, lists={opt[1]}'
    try:
        with time_limit(CASE_TIMEOUT):
            ta = pairspace.build(kind, case['a'], opt)
            tb = pairspace.build(kind, case['b'], opt)
            d = ta.diff(tb)
            cost = d.edited_cost()
            had = any(any(e.has_non_zero_cost() for e in n.edit_list) for n in d.dfs())
            if (cost == 0) != eq or had != (not eq):
                site = absorbing_site(d.edit) if not eq else type(d.edit).__name__
                kindk = 'zero_cost_for_unequal' if not eq else 'positive_cost_for_equal'
                return {'key': f'{kindk} @ {site} : {tag}',
                        'detail': f'A={case["a"]!r} B={case["b"]!r} cost={cost} any_nonzero_edit={had} equal={eq}'}, None
            for color, yaml in (((False, False), (True, False), (False, True)) if kind in ('json', 'yaml') else
                                ((False, False), (True, False)) if kind == 'xml' else ()):
                text = render(d, color, yaml)
                marks = cli.has_marks(text, color)
                if marks == eq:
                    return {'key': f'{"marks_for_equal" if eq else "no_marks_for_unequal"} @ {type(d.edit).__name__} '
                                   f'color={color}{" as YAML" if yaml else ""} : {tag}',
                            'detail': f'A={case["a"]!r} B={case["b"]!r} rendered {text!r}'}, None
            rc = None
            if with_cli and kind in ('json', 'xml', 'csv', 'yaml', 'plist'):
                dirp = pairspace.tmpdir()
                if kind == 'yaml':
                    import yaml
                    fa = cli.write_file(dirp, 'a.yml', yaml.safe_dump(case['a'], allow_unicode=True))
                    fb = cli.write_file(dirp, 'b.yml', yaml.safe_dump(case['b'], allow_unicode=True))
                elif kind == 'plist':
                    import plistlib
                    fa = cli.write_file(dirp, 'a.plist', plistlib.dumps(case['a']))
                    fb = cli.write_file(dirp, 'b.plist', plistlib.dumps(case['b']))
                elif kind == 'json':
                    fa = cli.write_file(dirp, 'a.json', json.dumps(case['a']))
                    fb = cli.write_file(dirp, 'b.json', json.dumps(case['b']))
                elif kind == 'xml':
                    import xml.etree.ElementTree as ET
                    fa = cli.write_file(dirp, 'a.xml', ET.tostring(pairspace.xml_element(case['a']), encoding='unicode'))
                    fb = cli.write_file(dirp, 'b.xml', ET.tostring(pairspace.xml_element(case['b']), encoding='unicode'))
                else:
                    import csv as pycsv
                    import io as _io
                    texts = []
                    for t in (case['a'], case['b']):
                        buf = _io.StringIO()
                        pycsv.writer(buf).writerows(t)
                        texts.append(buf.getvalue())
                    fa = cli.write_file(dirp, 'a.csv', texts[0])
                    fb = cli.write_file(dirp, 'b.csv', texts[1])
                o = cli.run_main(['--no-color', '--no-status'] + cli_flags(tuple(opt)) + [fa, fb])
                if o.exc:
                    return {'key': f'cli_exception {o.exc} @ {o.exc_site} : {tag}', 'detail': o.tb}, None
                rc = o.rc
                if (rc == 0) != eq or rc not in (0, 1):
                    return {'key': f'{"exit0_for_unequal" if not eq else "exit1_for_equal"} @ __main__.main : {tag}',
                            'detail': f'A={case["a"]!r} B={case["b"]!r} exit status {rc} library cost {cost}'}, None
                if cli.has_marks(o.out, False) == eq:
                    return {'key': f'cli_marks_mismatch @ __main__.main : {tag}', 'detail': o.out[:400]}, None
            return None, h((eq, cost, rc, type(d.edit).__name__))
    except CaseTimeout:
        return {'key': f'timeout @ diff : {tag}', 'detail': f'> {CASE_TIMEOUT}s'}, None
    except Exception as ex:  # noqa
        import traceback
        return {'key': f'exception {type(ex).__name__} @ {site_of(ex)} : {tag}', 'detail': traceback.format_exc()[-1500:]}, None


def _shard(i, n, tier, payload):
    r = Result()
    neq = 0
    for idx, case in all_cases(tier):
        if idx % n != i:
            continue
        r.evaluations += 1
        fail, out = evaluate(case)
        if fail:
            r.fail(fail['key'], case, fail['detail'], order=idx)
        else:
            r.outcomes.add(out)
        neq += 0 if data_equal(case) else 1
        if idx % 4999 == 0 and len(r.samples) < 3:
            r.samples.append(case)
    r.extra['unequal_pairs'] = neq
    return r


def run(ctx):
    return run_sharded(ctx, __name__, '_shard', ctx.workers * 4)


def replay(case):
    fail, _ = evaluate(case)
    return fail

"""C10 - matching options restrict the script as documented.

E1 over mc.pairspace (json documents, list/dict families, XML attributes, python objects) x all build options, through
json.build_tree / xml.build_tree / pydiff and (for json documents) BasicBuilder. The complete script is walked:
  none        : no pairing edit (anything but Remove/Insert) joins two key/value pairs with different keys;
  auto        : for every pair of mappings compared, each key present on both sides is paired with itself;
  lists off   : (always, or for equal-length lists under off-when-same-length) the sub-edits of every list edit pair
                child i with child i for i < min(len) and remove/insert exactly the surplus tail.
The option in force is taken from the case description, never from node flags.
"""
from collections import Counter

from mc.run import Result, h, time_limit, CaseTimeout, run_sharded
from mc import pairspace
from mc.gen import Pair, canon, build_options
from mc.script import ABSENT, ScriptError, plain, recon, refine, site_of, sub_edits, G

ID = 'C10'
LEVEL = 'model_checking'
CASE_TIMEOUT = 20
RULE = ('all cases of mc.pairspace x 9 build option sets x entry points {format builder, BasicBuilder}; the refined '
        'script is walked at every nesting level; distinct = distinct (option set, canonical list of constrained '
        'container edits)')
ASSUMPTIONS = ['positional pairing is judged on values (pairs with equal values are interchangeable)',
               'CLI spellings of the options are covered by C14 (CLI == library with the intended options)']
MANIFEST = {
    'technique': 'bounded-exhaustive exploration of input pairs x build options x entry points on the real code, script-walking oracle',
    'text': 'For every pair of the shared pair space under each of the 9 option sets (and through BasicBuilder as well '
            'as the format builders) the complete edit script is walked at every nesting level and checked against the '
            'documented meaning of the dictionary strategy (none / auto) and of the list-edit switches (off, '
            'off-when-same-length).',
    'note': 'Bounded by the pair space; XML child lists and CSV rows are built without list options by the library and '
            'are therefore unconstrained.',
    'design_ref': 'DESIGN.md 4/C10',
}


def walk(e, out):
    out.append(e)
    for s in sub_edits(e):
        walk(s, out)


def list_is_option_built(node):
    """Lists that the format builder creates from document lists (XML child lists / CSV rows ignore list options)."""
    from graphtage.xml import XMLElementChildren
    from graphtage.csv import CSVNode, CSVRow
    g = G()
    return isinstance(node, g.ListNode) and not isinstance(node, (XMLElementChildren, CSVNode, CSVRow))


def check_script(e, opt):
    """Returns None or (kind, site, detail)."""
    g = G()
    ds, lm = opt
    edits = []
    walk(e, edits)
    constrained = []
    for x in edits:
        fn, tn = getattr(x, 'from_node', None), getattr(x, 'to_node', None)
        if isinstance(x, (g.Remove, g.Insert)):
            continue
        # --- dictionary strategy none: no cross-key pairing
        if ds == 'none' and isinstance(fn, g.KeyValuePairNode) and isinstance(tn, g.KeyValuePairNode):
            if canon(plain(fn.key)) != canon(plain(tn.key)):
                return ('cross_key_pair_under_none', type(x).__name__, f'{plain(fn)!r} paired with {plain(tn)!r}')
        # --- dictionary strategy auto: shared keys pair with themselves
        if ds == 'auto' and isinstance(fn, g.MappingNode) and isinstance(tn, g.MappingNode) and isinstance(x, g.CompoundEdit):
            fk = {canon(plain(k.key)) for k in fn}
            tk = {canon(plain(k.key)) for k in tn}
            paired = set()
            for s in x.edits():
                sf, st = getattr(s, 'from_node', None), getattr(s, 'to_node', None)
                if isinstance(s, (g.Remove, g.Insert)):
                    continue
                if isinstance(sf, g.KeyValuePairNode) and isinstance(st, g.KeyValuePairNode):
                    a, b = canon(plain(sf.key)), canon(plain(st.key))
                    if a == b:
                        paired.add(a)
            missing = (fk & tk) - paired
            if missing:
                return ('shared_key_not_self_paired_under_auto', type(x).__name__,
                        f'keys {sorted(missing)} of {plain(fn)!r} -> {plain(tn)!r}')
            constrained.append(('auto', len(fk & tk)))
        # --- list edits disabled
        if list_is_option_built(fn) and list_is_option_built(tn) and isinstance(x, g.CompoundEdit):
            lf, lt = len(fn._children), len(tn._children)
            if lm == 'off' or (lm == 'samelen' and lf == lt):
                m = min(lf, lt)
                want = Counter()
                for i in range(m):
                    want[(canon(plain(fn._children[i])), canon(plain(tn._children[i])))] += 1
                for i in range(m, lf):
                    want[(canon(plain(fn._children[i])), None)] += 1
                for i in range(m, lt):
                    want[(None, canon(plain(tn._children[i])))] += 1
                got = Counter()
                for s in x.edits():
                    a, b = recon(s)
                    got[(None if a is ABSENT else canon(a), None if b is ABSENT else canon(b))] += 1
                if got != want:
                    return ('not_positional_with_list_edits_disabled', type(x).__name__,
                            f'{plain(fn)!r} -> {plain(tn)!r} under lists={lm}: script pairs '
                            f'{[(type(s).__name__, recon(s)) for s in x.edits()]!r}')
                constrained.append(('positional', lf, lt))
    return None, constrained


def build_basic(value, opt):
    from graphtage.builder import BasicBuilder
    return BasicBuilder(build_options(tuple(opt))).build_tree(value)


def evaluate(case):
    kind, opt = case['kind'], tuple(case['opt'])
    tag = f'{kind} dict={opt[0]}, lists={opt[1]}'
    outs = []
    try:
        with time_limit(CASE_TIMEOUT):
            entries = [('format', lambda v: pairspace.build(kind, v, opt))]
            if kind == 'json':
                entries.append(('BasicBuilder', lambda v: build_basic(v, opt)))
            if kind == 'pydict':
                entries.append(('BasicBuilder', lambda v: build_basic({k: x for k, x in v}, opt)))
            for name, builder in entries:
                ta, tb = builder(case['a']), builder(case['b'])
                e = ta.edits(tb)
                refine(e)
                r = check_script(e, opt)
                if r[0] is not None:
                    k, site, detail = r
                    return {'key': f'{k} @ {site} : via {name}, dict={opt[0]}, lists={opt[1]}', 'detail': detail}, None
                outs.append((name, tuple(r[1])))
            return None, h((opt, tuple(outs)))
    except CaseTimeout:
        return {'key': f'timeout @ diff : {tag}', 'detail': ''}, None
    except ScriptError as se:
        return {'key': f'script_malformed {se.kind} @ {se.site} : {tag}', 'detail': str(se)}, None
    except Exception as ex:  # noqa
        import traceback
        return {'key': f'exception {type(ex).__name__} @ {site_of(ex)} : {tag}', 'detail': traceback.format_exc()[-1200:]}, None


def cases(tier):
    """The shared pair space, with the option axis always fully expanded for json documents (an option that is not
    propagated must be caught even where it "should not matter")."""
    for idx, case in pairspace.all_cases(tier, docs_budget=5 if tier == 'quick' else 6):
        yield idx, case


def _shard(i, n, tier, payload):
    r = Result()
    nontrivial = 0
    for idx, case in cases(tier):
        if idx % n != i:
            continue
        r.evaluations += 1
        fail, out = evaluate(case)
        if fail:
            r.fail(fail['key'], case, fail['detail'], order=idx)
        else:
            r.outcomes.add(out)
        if idx % 9973 == 0 and len(r.samples) < 3:
            r.samples.append(case)
    return r


def run(ctx):
    return run_sharded(ctx, __name__, '_shard', ctx.workers * 4)


def replay(case):
    fail, _ = evaluate(case)
    return fail

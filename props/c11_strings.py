"""C11 - string changes are minimal.

E1: all ordered pairs of strings over small alphabets up to a length bound (plus a shared prefix/suffix family).
Oracle: a reference LCS table. Two views of the real result: the script of StringNode(a).edits(StringNode(b)) fully
refined, and the text rendered from StringNode(a).diff(StringNode(b)) with change marks. In both, the characters kept
must form a common subsequence of length LCS(a, b) and removed + inserted == |a| + |b| - 2 LCS.
"""
import io
import itertools

from mc.run import Result, h, time_limit, CaseTimeout, run_sharded
from mc import cli
from mc.gen import strings
from mc.script import refine, tighten_fully, site_of, G

ID = 'C11'
LEVEL = 'model_checking'
CASE_TIMEOUT = 20
LONG_TIMEOUT = 3600
RULE = ('all ordered string pairs over {a,b} up to length 6 (8 thorough), {a,b,c} up to 4 (5), two 2-byte letters up to 4 (5), '
        '{ASCII, CJK, astral} up to 3 (4); p.x.s vs p.y.s with |p|,|s| <= 3; a^n.tail vs a short string for n around 2**8 '
        '(thorough: and 2**16), both directions; distinct = distinct (kept, removed, inserted) triple with the kept subsequence')
ASSUMPTIONS = ['"sampled beyond" in the quantifier is sampling and is not done', 'reference: textbook LCS table']
MANIFEST = {
    'technique': 'bounded-exhaustive enumeration of string pairs on the real code against a reference LCS table',
    'text': 'Every ordered pair of strings over two- and three-letter alphabets up to the length bound is diffed through '
            'StringNode; the unchanged characters read from the script and, independently, from the rendered marks '
            'must be a common subsequence of maximal (LCS) length, so removed+inserted is minimal.',
    'note': 'Bounded by alphabet size and length; longer strings are outside the bound.',
    'design_ref': 'DESIGN.md 4/C11',
}


class Misspelt(Exception):
    pass


def lcs(a, b):
    t = [[0] * (len(b) + 1) for _ in range(len(a) + 1)]
    for i in range(len(a)):
        for j in range(len(b)):
            t[i + 1][j + 1] = t[i][j] + 1 if a[i] == b[j] else max(t[i][j + 1], t[i + 1][j])
    return t[len(a)][len(b)]


def sh(s):
    return repr(s) if len(s) <= 60 else f'{s[:16]!r}..(length {len(s)})..{s[-16:]!r}'


def is_subseq(s, t):
    it = iter(t)
    return all(c in it for c in s)


def cases(tier):
    q = tier == 'quick'
    seen = set()
    for alphabet, maxlen in (('ab', 6 if q else 8), ('abc', 4 if q else 5)):
        ss = list(strings(alphabet, maxlen))
        for a in ss:
            for b in ss:
                if (a, b) not in seen:
                    seen.add((a, b))
                    yield a, b
    # characters that are longer than one byte / one UTF-16 unit (a size measured in bytes must not leak into costs)
    # ... a combining character of the data itself (not one of the two change marks), and a line break
    for alphabet, maxlen in (('\u00e9\u00fc', 4 if q else 5), ('a\u65e5\U0001F600', 3 if q else 4), ('e\u0301', 4 if q else 5),
                             ('a\n', 4 if q else 5), ('a \n', 3 if q else 4)):
        ss = list(strings(alphabet, maxlen))
        for a in ss:
            for b in ss:
                if (a, b) not in seen:
                    seen.add((a, b))
                    yield a, b
    # one symbol repeated up to just around an accumulator boundary (8 bits; thorough: 16 bits), then a short tail
    tails = (('cb', 'cd'), ('c', 'c'), ('bc', 'cb'), ('', 'a'), ('b', ''))
    for n in (253, 254, 255, 256, 257) + (() if q else (65534, 65535, 65536)):
        for tail, other in tails:
            for a, b in (('a' * n + tail, other), (other, 'a' * n + tail)):
                if (a, b) not in seen:
                    seen.add((a, b))
                    yield a, b
    mids = ['', 'x', 'y', 'xy', 'yx', 'xx']
    ends = list(strings('ab', 2 if q else 3))
    for p in ends:
        for s in ends:
            for x in mids:
                for y in mids:
                    a, b = p + x + s, p + y + s
                    if (a, b) not in seen:
                        seen.add((a, b))
                        yield a, b


def script_view(a, b):
    g = G()
    e = g.StringNode(a).edits(g.StringNode(b))
    refine(e)
    tighten_fully(e)
    kept_a, kept_b, removed, inserted = [], [], 0, 0
    if isinstance(e, g.Match):
        fa, fb = e.from_node.object, e.to_node.object
        if fa == fb:
            return fa, fb, 0, 0, int(e.bounds().upper_bound)
        return '', '', len(fa), len(fb), int(e.bounds().upper_bound)
    if not isinstance(e, g.StringEdit):
        raise AssertionError(f'unexpected edit {type(e).__name__}')
    ra, rb = [], []
    for s in e.edit_distance.edits():
        if isinstance(s, g.Remove):
            removed += 1
            ra.append(s.from_node.object)
        elif isinstance(s, g.Insert):
            inserted += 1
            rb.append(s.from_node.object)
        elif isinstance(s, g.Match):
            ra.append(s.from_node.object)
            rb.append(s.to_node.object)
            if s.from_node.object == s.to_node.object and s.bounds().upper_bound == 0:
                kept_a.append(s.from_node.object)
                kept_b.append(s.to_node.object)
            else:
                removed += 1
                inserted += 1
        else:
            raise AssertionError(f'unexpected sub-edit {type(s).__name__}')
    if ''.join(ra) != a or ''.join(rb) != b:
        raise Misspelt(f'script spells {"".join(ra)!r} -> {"".join(rb)!r}')
    return ''.join(kept_a), ''.join(kept_b), removed, inserted, int(e.bounds().upper_bound)


def render_view(a, b):
    g = G()
    from graphtage.printer import Printer
    cli.pin_colorama()
    d = g.StringNode(a).diff(g.StringNode(b))
    buf = io.StringIO()
    p = Printer(buf, ansi_color=True, quiet=True)
    g.StringFormatter.DEFAULT_INSTANCE.print(p, d)
    import re
    text = re.sub(r'\x1b\[[0-9;]*m', '', buf.getvalue())
    kept, rem, ins = [], [], []
    i = 0
    while i < len(text):
        c = text[i]
        marks = ''
        j = i + 1
        while j < len(text) and text[j] in '\u0336\u031f':
            marks += text[j]
            j += 1
        i = j
        if c == '"':
            continue        # quotes (marked or not) are delimiters; the alphabets contain none
        if '\u0336' in marks:
            rem.append(c)
        elif '\u031f' in marks:
            ins.append(c)
        else:
            kept.append(c)
    # a whole-string replacement is rendered as  old -> new ; the arrow is not part of either string
    return ''.join(kept).replace(' -> ', ''), ''.join(rem), ''.join(ins)


def evaluate(pair):
    a, b = pair
    try:
        with time_limit(CASE_TIMEOUT if len(a) + len(b) < 2000 else LONG_TIMEOUT):
            L = lcs(a, b)
            ka, kb, rem, ins, cost = script_view(a, b)
            if ka != kb or not is_subseq(ka, a) or not is_subseq(kb, b):
                return {'key': 'kept_characters_not_a_common_subsequence @ StringNode.edits script',
                        'detail': f'{sh(a)} -> {sh(b)}: kept {sh(ka)}/{sh(kb)}'}, None
            if len(ka) != L or rem + ins != len(a) + len(b) - 2 * L:
                shape = 'one side has one character' if min(len(a), len(b)) == 1 else 'general'
                return {'key': f'not_minimal @ StringNode.edits script : {shape}',
                        'detail': f'{sh(a)} -> {sh(b)}: kept {len(ka)} (LCS {L}), removed {rem}, inserted {ins}'}, None
            kept, r, i = render_view(a, b)
            if not is_subseq(kept, a) or not is_subseq(kept, b) or len(r) + len(kept) != len(a) or len(i) + len(kept) != len(b):
                return {'key': 'rendered_marks_inconsistent @ StringFormatter',
                        'detail': f'{sh(a)} -> {sh(b)}: kept {sh(kept)} removed {sh(r)} inserted {sh(i)}'}, None
            if len(kept) != L:
                return {'key': 'not_minimal @ rendered marks', 'detail': f'{sh(a)} -> {sh(b)}: kept {sh(kept)}, LCS {L}'}, None
            return None, h((ka, rem, ins))
    except Misspelt as m:
        return {'key': 'script_does_not_spell_the_strings @ EditDistance.edits', 'detail': f'{sh(a)} -> {sh(b)}: {m}'}, None
    except CaseTimeout:
        return {'key': 'timeout @ string diff', 'detail': f'{sh(a)} -> {sh(b)}'}, None
    except Exception as ex:  # noqa
        import traceback
        return {'key': f'exception {type(ex).__name__} @ {site_of(ex)} : string diff', 'detail': f'{sh(a)} -> {sh(b)}\n' + traceback.format_exc()[-1000:]}, None


def _shard(i, n, tier, payload):
    r = Result()
    for idx, pair in enumerate(cases(tier)):
        if idx % n != i:
            continue
        r.evaluations += 1
        fail, out = evaluate(pair)
        if fail:
            r.fail(fail['key'], {'a': pair[0], 'b': pair[1]}, fail['detail'], order=idx)
        else:
            r.outcomes.add(out)
        if idx % 7919 == 0 and len(r.samples) < 3:
            r.samples.append({'a': pair[0], 'b': pair[1]})
    return r


def run(ctx):
    return run_sharded(ctx, __name__, '_shard', ctx.workers * 4)


def replay(case):
    fail, _ = evaluate((case['a'], case['b']))
    return fail

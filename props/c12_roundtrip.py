"""C12 - printing an unedited document yields text that parses back equal.

E1, starting from files: write a document with the format's reference writer, load it through the Filetype, print it
with the Filetype's default formatter on Printer(ansi_color=False), load the printed text again, compare.
JSON / JSON5 / CSV over their whole value domain: every Unicode scalar (quick: the whole BMP + plane boundaries)
as a one-character string value, as a key (JSON) and as a cell (CSV); all pairs of syntax-relevant characters; all small
documents incl. empty containers; deep nesting; boundary numbers; all small CSV tables over a hostile cell alphabet.
YAML / plist / XML over the stated narrower domain: plain alphanumeric content (incl. keyword look-alikes).
A history leg prints two documents of different formats on one Printer object.
"""
import io
import itertools
import json
import math
import os
import plistlib

from mc.run import Result, h, time_limit, CaseTimeout, run_sharded
from mc import pairspace, cli
from mc.gen import build_options, DocSpace, canon, strings
from mc.script import plain, site_of

ID = 'C12'
LEVEL = 'model_checking'
CASE_TIMEOUT = 60
RULE = ('per format: bounded-exhaustive documents of the stated domain (every Unicode scalar batched 64 per document and '
        'bisected on failure, all pairs of syntax characters, all small documents / tables, nesting chains, boundary '
        'numbers), each loaded -> printed -> re-loaded; distinct = distinct (format, document) with an equal reload')
ASSUMPTIONS = ['reference writers/parsers (json, csv, yaml, plistlib, xml.etree) produce the input files',
               'outside the stated domain and not checked: YAML/plist/XML with empty strings, empty containers, '
               'non-alphanumeric text', 'Unicode scalars are covered as single-character strings']
MANIFEST = {
    'technique': 'bounded-exhaustive enumeration of documents per format on the real load/print/load path, reload-equality oracle',
    'text': 'For JSON, JSON5 and CSV every Unicode scalar value (thorough; quick: the whole Basic Multilingual Plane and '
            'every plane boundary) is used as a string value, key and cell, together with all pairs of syntax '
            'characters, all documents of <= 5 nodes, nesting chains to depth 60, boundary numbers and all small '
            'tables over a hostile cell alphabet; for YAML, plist and XML all small documents over alphanumeric strings '
            'including keyword look-alikes. Each is loaded, printed by its own formatter and loaded again.',
    'note': 'Bounded by document size; YAML/plist/XML only within the alphanumeric domain the property states.',
    'design_ref': 'DESIGN.md 4/C12',
}

EXT = {'json': '.json', 'json5': '.json5', 'yaml': '.yml', 'csv': '.csv', 'xml': '.xml', 'plist': '.plist'}


def filetype(fmt):
    from graphtage import graphtage as gg
    return gg.FILETYPES_BY_TYPENAME[fmt]


def write_doc(fmt, doc):
    """Reference serialisation of a plain document (bytes or str)."""
    if fmt in ('json', 'json5'):
        return json.dumps(doc, ensure_ascii=False)
    if fmt == 'csv':
        import csv
        buf = io.StringIO()
        csv.writer(buf).writerows(doc)
        return buf.getvalue()
    if fmt == 'yaml':
        import yaml
        return yaml.safe_dump(doc, allow_unicode=True)
    if fmt == 'plist':
        return plistlib.dumps(doc)
    if fmt == 'xml':
        import xml.etree.ElementTree as ET
        return ET.tostring(pairspace.xml_element(doc), encoding='unicode')
    raise ValueError(fmt)


def printed(fmt, tree, printer=None):
    from graphtage.printer import Printer
    buf = io.StringIO()
    p = printer or Printer(buf, ansi_color=False, quiet=True)
    if printer is not None:
        buf = printer._gtverif_buf
        start = len(buf.getvalue())
    else:
        start = 0
    filetype(fmt).get_default_formatter().print(p, tree)
    return buf.getvalue()[start:]


def norm(fmt, v):
    """Comparable plain value; XML text modulo surrounding whitespace."""
    if fmt == 'xml':
        def nx(e):
            return (e['#tag'], tuple(sorted(e['#attrib'].items())), (e['#text'] or '').strip(), tuple(nx(c) for c in e['#children']))
        return nx(v)
    return canon(v)


def roundtrip(fmt, doc, name='rt', printer=None, use_node_eq=True, opt=None):
    """None if the printed text reloads equal, else (kind, detail). opt: build options (dict strategy, list mode) or None."""
    dirp = pairspace.tmpdir()
    text = write_doc(fmt, doc)
    f1 = cli.write_file(dirp, name + '_in' + EXT[fmt], text)
    ft = filetype(fmt)
    try:
        t1 = ft.build_tree(f1, build_options(tuple(opt))) if opt else ft.build_tree(f1)
    except Exception as ex:  # noqa  the reference writer's output must load; otherwise the case is outside the domain
        return ('first_load_failed', f'{type(ex).__name__}: {ex}')
    try:
        out = printed(fmt, t1, printer)
    except Exception as ex:  # noqa
        return (f'print_raised {type(ex).__name__} @ {site_of(ex)}', repr(ex))
    f2 = cli.write_file(dirp, name + '_out' + EXT[fmt], out)
    try:
        t2 = ft.build_tree(f2, build_options(tuple(opt))) if opt else ft.build_tree(f2)
    except Exception as ex:  # noqa
        return ('printed_text_rejected_by_loader', f'{type(ex).__name__}: {str(ex)[:200]}; printed {out[:200]!r}')
    try:
        v1, v2 = plain(t1), plain(t2)
    except Exception as ex:  # noqa
        return ('plain_failed', repr(ex))
    if norm(fmt, v1) != norm(fmt, v2):
        return ('reloaded_document_differs', f'loaded {v1!r}; printed {out[:200]!r}; reloaded {v2!r}')
    # second opinion: the library's own node equality - where the root class defines one (PLISTNode does not) and where
    # it is tractable (node equality is exponential in the nesting depth of mappings, which is outside this property)
    if use_node_eq and type(t1).__eq__ is not object.__eq__ and not (t1 == t2):
        return ('reloaded_tree_not_equal', f'plain values equal but t1 != t2; printed {out[:200]!r}')
    return None


# ---- domains -------------------------------------------------------------------------------------------------------
def scalars(tier):
    if tier != 'quick':
        for cp in range(0x110000):
            if not 0xD800 <= cp <= 0xDFFF:
                yield cp
        return
    seen = set()
    cps = list(range(0x10000))
    for plane in range(17):
        cps += [plane * 0x10000, plane * 0x10000 + 1, plane * 0x10000 + 0xFFFE, plane * 0x10000 + 0xFFFF]
    cps += [0xD7FF, 0xE000, 0x2028, 0x2029, 0xFEFF, 0xFFFD, 0x0336, 0x031F, 0x200B, 0x200E, 0x3000, 0x1F600, 0x0100, 0x07FF, 0x0800, 0xFFFF]
    for cp in cps:
        if cp not in seen and not 0xD800 <= cp <= 0xDFFF and cp < 0x110000:
            seen.add(cp)
            yield cp


SYNTAX = ['"', '\\', '/', ',', ':', '[', ']', '{', '}', '\n', '\r', ' ', "'", '#', '\t']
NUMBERS = [0, -0.0, 1, -1, 2 ** 31, 2 ** 53 - 1, 2 ** 53, 2 ** 53 + 1, 2 ** 63, 2 ** 64, 10 ** 30, 5e-324, 1.7976931348623157e308, 0.1, 1e16, 1e22,
           -2 ** 63, 1.5, 3.0, float('nan'), float('inf'), float('-inf')]
CSV_CELLS = ['', 'a', ',', '"', '\n', ' a ', 'a,b', '""', 'a\nb', '\r', "'"]
YAML_WORDS = ['true', 'True', 'TRUE', 'false', 'no', 'No', 'NO', 'yes', 'on', 'off', 'null', 'Null', 'NULL', 'y', 'n', 'nan', 'inf', 'none']


def cases(tier):
    """Yields (fmt, kind, doc). A doc is a plain value acceptable to write_doc(fmt, .)."""
    q = tier == 'quick'
    # -- every scalar as value / key / cell, batched
    batch = []
    for cp in scalars(tier):
        batch.append(chr(cp))
        if len(batch) == 64:
            yield from scalar_batch(batch)
            batch = []
    if batch:
        yield from scalar_batch(batch)
    # -- strings of two and three characters over one representative per character class (escaping must not depend on
    #    whether a string is handled character by character or as a whole)
    reps = ['a', '"', '\\', '\n', '\x00', '\x7f', '\u00e9', '\u2028', '\ud7ff', '\ue000', '\uffff', '\U00010000', '\U0001F600', '\U0010FFFF']
    mixed = [''.join(t) for k in (2, 3) for t in itertools.product(reps if not q else reps[:2] + reps[3:5] + reps[6:8] + reps[10:13], repeat=k)]
    for i in range(0, len(mixed), 32):
        chunk = mixed[i:i + 32]
        for fmt in ('json', 'json5'):
            yield fmt, 'mixed-string batch value', list(chunk)
            yield fmt, 'mixed-string batch key', {c: j for j, c in enumerate(chunk)}
        cells = [c for c in chunk if '\r' not in c and '\x00' not in c]
        yield 'csv', 'mixed-string batch cell', [[c, 'x'] for c in cells]
    # -- characters that mean something at the very start of a file (byte-order marks) as the start of the first cell / value
    for lead in ('\ufeff', '\ufffe', '\ufeff\ufeff', '\u200b', '#', ' ', '\t'):
        for rest in ('', 'id'):
            if lead + rest:
                yield 'csv', 'file-initial cell', [[lead + rest, 'x'], ['1', '2']]
                for fmt in ('json', 'json5'):
                    yield fmt, 'file-initial value', lead + rest
    # -- pairs of syntax characters
    for a, b in itertools.product(SYNTAX, repeat=2):
        s = a + b
        for fmt in ('json', 'json5'):
            yield fmt, 'syntax-pair value', [s]
            yield fmt, 'syntax-pair key', {s: 1}
        if '\r' not in s:
            yield 'csv', 'syntax-pair cell', [[s, 'x']]
    # -- all small documents
    ds = DocSpace((1, 'ab', '', None, True, 1.5), ('a', ''), 3)
    for d in ds.upto(4 if q else 5):
        for fmt in ('json', 'json5'):
            yield fmt, 'small doc', d
    for depth in range(1, 61):
        d = 1
        for i in range(depth):
            d = [d] if i % 2 == 0 else {'k': d}
        for fmt in ('json', 'json5'):
            yield fmt, 'nesting chain', d
    for n in NUMBERS:
        for fmt in ('json', 'json5'):
            yield fmt, 'number', [n]
            yield fmt, 'number', {'n': n}
    # scalars that are equal in Python but are different data (0 / 0.0 / -0.0 / false, 1 / 1.0 / true), side by side
    lookalikes = (0, 0.0, -0.0, False, 1, 1.0, True)
    for x in lookalikes:
        for y in lookalikes:
            for fmt in ('json', 'json5', 'yaml', 'plist'):
                yield fmt, 'look-alike scalars', [x, y]
                yield fmt, 'look-alike scalars', {'a': x, 'b': [y]}
    # -- CSV tables
    cells = CSV_CELLS[:8] if q else CSV_CELLS
    rows = []
    for n in range(0, 3 if q else 3):
        rows.extend(list(t) for t in itertools.product(cells if n < 2 or not q else cells[:5], repeat=n))
    for r in rows:
        yield 'csv', 'one-row table', [r]
    small_rows = [r for r in rows if len(r) <= (1 if q else 2)]
    for r1 in small_rows:
        for r2 in small_rows[: (20 if q else 60)]:
            yield 'csv', 'two-row table', [r1, r2]
    # -- YAML / plist / XML: the alphanumeric domain
    words = [w for w in strings('a1e0x', 3 if q else 4) if w] + YAML_WORDS
    for w in words:
        yield 'yaml', 'word value', [w]
        yield 'yaml', 'word key', {w: 'v'}
        yield 'yaml', 'word both', {'k': w}
        yield 'plist', 'word value', [w]
        yield 'plist', 'word key', {w: 'v'}
        yield 'xml', 'word text', {'tag': 'a', 'text': w}
        yield 'xml', 'word attr', {'tag': 'a', 'attrib': {'k': w}}
    ads = DocSpace((1, 'ab', 'x1', True, 1.5, 'no'), ('a', 'b1'), 3)
    for d in ads.upto(4 if q else 5):
        if no_empty(d):
            yield 'yaml', 'small doc', d
            if isinstance(d, (list, dict)):
                yield 'plist', 'small doc', d
            else:
                yield 'plist', 'small doc', [d]
    for el in pairspace.xml_elements('quick' if q else 'thorough'):
        yield 'xml', 'element', el
    for d in OPTION_DOCS:
        for fmt in ('json', 'json5', 'yaml', 'plist'):
            yield fmt, 'nested doc under options', d
    for n in (0, 1, -1, 2 ** 31, 2 ** 63 - 1, 1.5, 0.1, 1e16, 1e22):
        yield 'yaml', 'number', [n]
        yield 'plist', 'number', [n]


def no_empty(d):
    if isinstance(d, (list, dict)):
        if not d:
            return False
        vals = d.values() if isinstance(d, dict) else d
        return all(no_empty(v) for v in vals)
    return d != '' and d is not None


def scalar_batch(chars):
    yield 'json', 'scalar batch value', list(chars)
    yield 'json', 'scalar batch key', {c: i for i, c in enumerate(chars)}
    yield 'json5', 'scalar batch value', list(chars)
    cells = [c for c in chars if c not in '\r\x00']       # csv.reader cannot represent NUL / treats bare CR as a row end
    yield 'csv', 'scalar batch cell', [[c, 'x'] for c in cells]


def bisect(fmt, kind, doc):
    """Smallest sub-document of a batch that still fails."""
    if 'batch' not in kind:
        return doc
    items = list(doc.items()) if isinstance(doc, dict) else list(doc)
    for it in items:
        sub = dict([it]) if isinstance(doc, dict) else [it]
        if roundtrip(fmt, sub, 'bis') is not None:
            return sub
    return doc


def describe(fmt, kind, doc, res):
    feature = kind
    if 'scalar' in kind:
        try:
            s = (list(doc.keys())[0] if isinstance(doc, dict) else (doc[0][0] if fmt == 'csv' else doc[0]))
            cp = ord(s[0])
            cls = 'control character' if cp < 0x20 or 0x7F <= cp < 0xA0 else 'ASCII' if cp < 0x80 else 'non-ASCII BMP' if cp < 0x10000 else 'astral'
            feature = f'{kind.replace("batch ", "")} : {cls}'
        except Exception:  # noqa
            pass
    return {'key': f'{res[0]} @ {fmt} formatter : {feature}', 'detail': f'{fmt} {kind}: {json.dumps(doc, default=str)[:300]} -> {res[1]}'}


OPTION_DOCS = ({'server': {'name': 'web01', 'limits': {'cpu': 4}}, 'l': [{'a': {'b': 1}}, [1, [2]]]}, [{'k': {'n': {'m': 'v'}}}], {'a': [1, 2], 'b': {'c': [3]}})


def evaluate(fmt, kind, doc):
    try:
        with time_limit(CASE_TIMEOUT):
            if kind == 'nested doc under options':
                for opt in (('none', 'on'), ('match', 'on'), ('auto', 'off'), ('none', 'samelen')):
                    res = roundtrip(fmt, doc, opt=opt)
                    if res is not None and res[0] != 'first_load_failed':
                        return {'key': f'{res[0]} @ {fmt} formatter : nested document, dict={opt[0]}, lists={opt[1]}',
                                'detail': f'{json.dumps(doc)} -> {res[1]}'}, doc
                return None, doc
            res = roundtrip(fmt, doc, use_node_eq=(kind != 'nesting chain'))
            if res is None:
                return None, doc
            if res[0] == 'first_load_failed':
                if 'batch' not in kind:
                    return 'skip', doc
                # one member of the batch is outside the loader's domain: judge the members one by one, so that only
                # that member is left out
                items = list(doc.items()) if isinstance(doc, dict) else list(doc)
                judged = 0
                for it in items:
                    sub = dict([it]) if isinstance(doc, dict) else [it]
                    r1 = roundtrip(fmt, sub, 'one')
                    if r1 is None:
                        judged += 1
                    elif r1[0] != 'first_load_failed':
                        return describe(fmt, kind, sub, r1), sub
                return ('skip' if judged == 0 else None), doc
            small = bisect(fmt, kind, doc)
            if small is not doc:
                res = roundtrip(fmt, small, 'bis') or res
            return describe(fmt, kind, small, res), small
    except CaseTimeout:
        return {'key': f'timeout @ {fmt} roundtrip : {kind}', 'detail': repr(doc)[:200]}, doc


# ---- history leg: one Printer object, two documents ------------------------------------------------------------------
HIST_DOCS = {
    'json': {'server': {'limits': {'cpu': 4, 'mem': 16}, 'name': 'web01'}, 'l': [1, [2, [3]]]},
    'yaml': {'server': {'limits': {'cpu': 4, 'mem': 16}, 'name': 'web01'}, 'l': [1, [2, [3]]]},
    'plist': {'server': {'limits': {'cpu': 4, 'mem': 16}, 'name': 'web01'}, 'l': [1, [2, [3]]]},
    'csv': [['a', 'b'], ['1', '2']],
    'xml': {'tag': 'a', 'children': [{'tag': 'b', 'children': [{'tag': 'c', 'text': 't'}]}]},
}


def history_eval(f1, f2):
    from graphtage.printer import Printer
    buf = io.StringIO()
    p = Printer(buf, ansi_color=False, quiet=True)
    p._gtverif_buf = buf
    r1 = roundtrip(f1, HIST_DOCS[f1], 'h1', p)
    if r1 is not None:
        return {'key': f'{r1[0]} @ {f1} formatter : first document on a fresh printer', 'detail': r1[1]}
    p.newline()
    r2 = roundtrip(f2, HIST_DOCS[f2], 'h2', p)
    if r2 is not None:
        return {'key': f'{r2[0]} @ {f2} formatter : second document on a printer that already printed {f1}', 'detail': r2[1]}
    return None


# ---- history leg 2: a diff is printed, then an unedited document with the same (process-wide) formatter -------------
DIFF_THEN = {
    'json': [({'name': 'report'}, {'name': 'report2'}), ({'name': 'report2'}, {'name': 'report'}), (['ab'], ['abc']), ({'k': 'v'}, {'k2': 'v'}),
             ('x', 'xy'), ({'a': [1, 2]}, {'a': [1, 2, 3]}), ({'t': 'l1\nl2'}, {'t': 'l1\nl2x'})],
    'csv': [([['a', 'report']], [['a', 'report2']]), ([['a', 'report2']], [['a', 'report']]), ([['a']], [['a'], ['b']])],
    'xml': [({'tag': 'a', 'text': 'report'}, {'tag': 'a', 'text': 'report2'}), ({'tag': 'a', 'attrib': {'k': 'v'}}, {'tag': 'a', 'attrib': {'k': 'v2'}}),
            ({'tag': 'a'}, {'tag': 'a', 'children': [{'tag': 'b'}]})],
}
DIFF_THEN['json5'] = DIFF_THEN['json']
DIFF_THEN['yaml'] = DIFF_THEN['json']
DIFF_THEN['plist'] = [p for p in DIFF_THEN['json'] if isinstance(p[0], (dict, list))]
AFTER_DOCS = {
    'json': [{'author': 'x', 'n': [1, 'two']}, ['s'], 's'], 'csv': [[['a', 'b'], ['1', '2']]],
    'xml': [{'tag': 'a', 'attrib': {'k': 'v'}, 'text': 't', 'children': [{'tag': 'b'}]}],
}
AFTER_DOCS['json5'] = AFTER_DOCS['json']
AFTER_DOCS['yaml'] = AFTER_DOCS['json'][:2]
AFTER_DOCS['plist'] = AFTER_DOCS['json'][:2]


def diff_then_cases():
    for fmt in sorted(DIFF_THEN):
        for pi in range(len(DIFF_THEN[fmt])):
            for color in (False, True):
                for f2 in sorted(AFTER_DOCS):
                    for di in range(len(AFTER_DOCS[f2])):
                        yield [fmt, pi, color, f2, di]


def diff_then_eval(fmt, pi, color, f2, di):
    """Print the diff of a pair with the format's formatter, then print an unedited document and read it back."""
    from graphtage.printer import Printer
    cli.pin_colorama()
    a, b = DIFF_THEN[fmt][pi]
    dirp = pairspace.tmpdir()
    ft = filetype(fmt)
    ta = ft.build_tree(cli.write_file(dirp, 'dt_a' + EXT[fmt], write_doc(fmt, a)))
    tb = ft.build_tree(cli.write_file(dirp, 'dt_b' + EXT[fmt], write_doc(fmt, b)))
    p = Printer(io.StringIO(), ansi_color=color, quiet=True)
    try:
        ft.get_default_formatter().print(p, ta.diff(tb))
    except Exception as ex:  # noqa  (rendering failures are C13's subject)
        return None
    res = roundtrip(f2, AFTER_DOCS[f2][di], 'dt')
    if res is not None and res[0] != 'first_load_failed':
        return {'key': f'{res[0]} @ {f2} formatter : unedited document printed after a {fmt} diff in the same process',
                'detail': f'after printing {a!r} -> {b!r} as {fmt} (colour={color}): {res[1]}'}
    return None


def _shard(i, n, tier, payload):
    r = Result()
    per = {}
    skipped = 0
    for idx, (fmt, kind, doc) in enumerate(cases(tier)):
        if idx % n != i:
            continue
        fail, small = evaluate(fmt, kind, doc)
        if fail == 'skip':
            skipped += 1
            continue
        r.evaluations += 1
        per[fmt] = per.get(fmt, 0) + 1
        if fail:
            r.fail(fail['key'], {'fmt': fmt, 'kind': kind.replace('batch ', ''), 'doc_json': json.dumps(small)}, fail['detail'], order=idx)
        else:
            r.outcomes.add(h((fmt, kind, json.dumps(doc, default=str))))
        if idx % 1009 == 0 and len(r.samples) < 4:
            r.samples.append({'fmt': fmt, 'kind': kind, 'doc': json.dumps(doc, default=str)[:120]})
    fmts = sorted(HIST_DOCS)
    for j, (f1, f2) in enumerate(itertools.product(fmts, repeat=2)):
        if j % n != i:
            continue
        r.evaluations += 1
        fail = history_eval(f1, f2)
        if fail:
            r.fail(fail['key'], {'history': [f1, f2]}, fail['detail'], order=10 ** 8 + j)
        else:
            r.outcomes.add(h(('hist', f1, f2)))
    for j, case in enumerate(diff_then_cases()):
        if j % n != i:
            continue
        r.evaluations += 1
        fail = diff_then_eval(*case)
        if fail:
            r.fail(fail['key'], {'diff_then': case}, fail['detail'], order=2 * 10 ** 8 + j)
        else:
            r.outcomes.add(h(('diff_then', json.dumps(case))))
    r.extra['documents_per_format'] = per
    r.extra['outside_domain_skipped'] = skipped
    return r


def run(ctx):
    res = run_sharded(ctx, __name__, '_shard', ctx.workers * 4)
    res.extra['unicode_scalars_covered'] = sum(1 for _ in scalars(ctx.tier))
    return res


def replay(case):
    if 'history' in case:
        return history_eval(*case['history'])
    if 'diff_then' in case:
        return diff_then_eval(*case['diff_then'])
    doc = json.loads(case['doc_json'])
    fail, _ = evaluate(case['fmt'], case['kind'], doc)
    return None if fail == 'skip' else fail

"""C09 - the same data compares as equal regardless of input file format.

E1: all data values with <= N nodes that are expressible in JSON, JSON5, YAML and plist alike (non-empty alphanumeric
strings incl. keyword look-alikes, ints, non-integral floats, bools, non-empty lists and string-keyed dicts; no null),
written by the reference writers and loaded through each Filetype.build_tree, x every ordered pair of formats (16)
x build options. Oracle: the four loads are equal as data; the diff of X_f against X_g costs 0 in both directions and
the command exits 0; for a second value Z, cost(X_f, Z_g) is the same for all 16 format pairs.
"""
import itertools
import json
import plistlib

from mc.run import Result, h, time_limit, CaseTimeout, run_sharded
from mc import pairspace, cli
from mc.gen import DocSpace, canon, build_options, cli_flags, OPTION_SETS
from mc.script import plain, refine, tighten_fully, site_of

ID = 'C09'
LEVEL = 'model_checking'
CASE_TIMEOUT = 120
FORMATS = ('json', 'json5', 'yaml', 'plist')
EXT = {'json': '.json', 'json5': '.json5', 'yaml': '.yml', 'plist': '.plist'}
SCALARS = ('a', 'true', 'null', '123', '1e3', 'yes', 1, 0, 1.5, True)
KEYS = ('a', 'no')
RULE = ('all values with <= N nodes over scalars ' + repr(SCALARS) + ' and keys ' + repr(KEYS) + ' (non-empty containers) '
        'x 4 formats x 16 ordered format pairs x relevant build options; all value pairs (X, Z) with |X|+|Z| <= M x 16 '
        'format pairs; CLI exit status on the complete N=3 subset; distinct = distinct (value, format pair, cost)')
ASSUMPTIONS = ['reference writers: json.dumps (also used as JSON5 text), yaml.safe_dump, plistlib.dumps',
               'null is excluded (plist has none); int/float of equal value is unspecified (C02)']
MANIFEST = {
    'technique': 'bounded-exhaustive enumeration of data values x format pairs x options on the real loaders and diff, format-independence oracle',
    'text': 'Every value up to the node bound that all four data formats can express is written in each format, loaded '
            'through the real Filetype loaders and diffed for every ordered pair of formats under every relevant option '
            'set: equal data must load equal, diff to cost 0 both ways and exit 0, and the cost against any second '
            'value must not depend on which formats the two sides came from.',
    'note': 'Bounded by N=4 nodes per value (quick; 5 thorough) and M=4 (5) for value pairs.',
    'design_ref': 'DESIGN.md 4/C09',
}


def values(n):
    ds = DocSpace(SCALARS, KEYS, 3)
    out = []
    for v in ds.upto(n):
        if pairspace_nonempty(v):
            out.append(v)
            r = reversed_keys(v)
            if json.dumps(r) != json.dumps(v):
                out.append(r)       # same data, keys written in the opposite order (YAML and plist writers sort keys, JSON does not)
    return out


def reversed_keys(v):
    if isinstance(v, dict):
        return {k: reversed_keys(v[k]) for k in reversed(list(v))}
    if isinstance(v, list):
        return [reversed_keys(x) for x in v]
    return v


def pairspace_nonempty(v):
    if isinstance(v, (list, dict)):
        if not v:
            return False
        return all(pairspace_nonempty(x) for x in (v.values() if isinstance(v, dict) else v))
    return True


def serialise(fmt, v):
    if fmt in ('json', 'json5'):
        return json.dumps(v)
    if fmt == 'yaml':
        import yaml
        return yaml.safe_dump(v)
    return plistlib.dumps(v)


_cache = {}


def load(fmt, v, opt):
    from graphtage import graphtage as gg
    key = (fmt, json.dumps(v), tuple(opt))
    if key not in _cache:
        if len(_cache) > 20000:
            _cache.clear()
        p = cli.write_file(pairspace.tmpdir(), 'c09' + EXT[fmt], serialise(fmt, v))
        _cache[key] = gg.FILETYPES_BY_TYPENAME[fmt].build_tree(p, build_options(tuple(opt)))
    return _cache[key]


def cost(ta, tb):
    d = ta.diff(tb)
    return int(d.edited_cost()), type(d.edit).__name__


def same_eval(v):
    """One value: loads agree, every ordered format pair diffs to zero."""
    n = 0
    fails = {}
    try:
        with time_limit(CASE_TIMEOUT):
            for opt in pairspace.relevant_options(v, v):
                trees = {f: load(f, v, opt) for f in FORMATS}
                for f in FORMATS:
                    if canon(plain(trees[f])) != canon(v):
                        fails.setdefault(f'loaded_value_differs @ {f} loader : dict={opt[0]}, lists={opt[1]}',
                                         f'{v!r} written as {f} loads as {plain(trees[f])!r}')
                for f, g in itertools.product(FORMATS, repeat=2):
                    c, cls = cost(trees[f], trees[g])
                    n += 1
                    if c != 0:
                        fails.setdefault(f'same_data_not_equal @ {cls} : from {f} to {g}',
                                         f'{v!r}: {f} -> {g} costs {c} under dict={opt[0]}, lists={opt[1]}')
            return n, [{'key': k, 'detail': d} for k, d in fails.items()]
    except CaseTimeout:
        return n, [{'key': 'timeout @ diff : same value', 'detail': repr(v)}]
    except Exception as ex:  # noqa
        import traceback
        return n, [{'key': f'exception {type(ex).__name__} @ {site_of(ex)} : same value', 'detail': repr(v) + traceback.format_exc()[-900:]}]


def third_eval(x, z):
    n = 0
    try:
        with time_limit(CASE_TIMEOUT):
            fails = {}
            for opt in pairspace.relevant_options(x, z):
                if opt[1] == 'samelen':
                    continue
                tx = {f: load(f, x, opt) for f in FORMATS}
                tz = {f: load(f, z, opt) for f in FORMATS}
                ref = None
                for f, g in itertools.product(FORMATS, repeat=2):
                    c, cls = cost(tx[f], tz[g])
                    n += 1
                    if ref is None:
                        ref = (c, f, g)
                    elif c != ref[0]:
                        fails.setdefault(f'cost_depends_on_formats @ {cls} : from {f} to {g}',
                                         f'{x!r} vs {z!r} (dict={opt[0]}, lists={opt[1]}): {ref[1]}->{ref[2]} costs {ref[0]}, {f}->{g} costs {c}')
            return n, [{'key': k, 'detail': d} for k, d in fails.items()]
    except CaseTimeout:
        return n, [{'key': 'timeout @ diff : third value', 'detail': repr((x, z))}]
    except Exception as ex:  # noqa
        import traceback
        return n, [{'key': f'exception {type(ex).__name__} @ {site_of(ex)} : third value', 'detail': repr((x, z)) + traceback.format_exc()[-900:]}]


# ---- documents in which one container object occurs twice (YAML anchors / aliases, binary plist object references) ----
SHAPES = ('list2', 'dict2', 'nest')
ALIAS_FORMATS = ('json', 'json5', 'yaml-aliased', 'yaml-flat', 'plist', 'plist-binary')


def shaped(shape, x):
    if shape == 'list2':
        return [x, x]
    if shape == 'dict2':
        return {'a': x, 'no': x}
    return [x, [x]]


def alias_load(fmt, shape, inner, opt):
    """The document shaped(shape, inner) written so that the format's own way of sharing one object is used."""
    import yaml
    from graphtage import graphtage as gg
    x = list(inner)
    doc = shaped(shape, x)                                   # the same list object twice
    flat = json.loads(json.dumps(doc))                        # the same data without sharing
    if fmt in ('json', 'json5'):
        data, typ = json.dumps(doc), fmt
    elif fmt == 'yaml-aliased':
        data, typ = yaml.safe_dump(doc), 'yaml'             # emits &id001 / *id001
        assert '*id' in data
    elif fmt == 'yaml-flat':
        data, typ = yaml.safe_dump(flat), 'yaml'
    elif fmt == 'plist':
        data, typ = plistlib.dumps(doc), 'plist'
    else:
        data, typ = plistlib.dumps(doc, fmt=plistlib.FMT_BINARY), 'plist'     # containers are written once and referenced
    p = cli.write_file(pairspace.tmpdir(), 'c09al' + EXT[typ], data)
    return gg.FILETYPES_BY_TYPENAME[typ].build_tree(p, build_options(tuple(opt)))


def aliased_eval(shape, inner, other):
    n = 0
    fails = {}
    try:
        with time_limit(CASE_TIMEOUT):
            for opt in (('auto', 'on'), ('auto', 'off'), ('auto', 'samelen'), ('none', 'off')):
                tx = {f: alias_load(f, shape, inner, opt) for f in ALIAS_FORMATS}
                want = shaped(shape, list(inner))
                for f in ALIAS_FORMATS:
                    if canon(plain(tx[f])) != canon(want):
                        fails.setdefault(f'loaded_value_differs @ {f} loader : shared container', f'{want!r} loads as {plain(tx[f])!r}')
                tz = {f: alias_load(f, shape, other, opt) for f in ('json', 'yaml-aliased')}
                ref = None
                for f in ALIAS_FORMATS:
                    for g in tz:
                        c, cls = cost(tx[f], tz[g])
                        n += 1
                        if ref is None:
                            ref = (c, f, g)
                        elif c != ref[0]:
                            fails.setdefault(f'cost_depends_on_formats @ {cls} : from {f} to {g}, shared container',
                                             f'{want!r} vs {shaped(shape, list(other))!r} (dict={opt[0]}, lists={opt[1]}): '
                                             f'{ref[1]}->{ref[2]} costs {ref[0]}, {f}->{g} costs {c}')
                if list(inner) == list(other) and ref and ref[0] != 0:
                    fails.setdefault('same_data_not_equal @ shared container', f'{want!r}: cost {ref[0]}')
            return n, [{'key': k, 'detail': d} for k, d in fails.items()]
    except CaseTimeout:
        return n, [{'key': 'timeout @ diff : shared container', 'detail': repr((shape, inner, other))}]
    except Exception as ex:  # noqa
        import traceback
        return n, [{'key': f'exception {type(ex).__name__} @ {site_of(ex)} : shared container', 'detail': repr((shape, inner, other)) + traceback.format_exc()[-900:]}]


def cli_eval(v):
    n = 0
    fails = {}
    dirp = pairspace.tmpdir()
    for f, g in itertools.product(FORMATS, repeat=2):
        fa = cli.write_file(dirp, 'cl_a' + EXT[f], serialise(f, v))
        fb = cli.write_file(dirp, 'cl_b' + EXT[g], serialise(g, v))
        o = cli.run_main(['--no-status', '--no-color', fa, fb])
        n += 1
        if o.exc:
            fails.setdefault(f'cli_exception {o.exc} @ {o.exc_site} : from {f} to {g}', o.tb[-900:])
        elif o.rc != 0:
            fails.setdefault(f'exit_status_nonzero_for_same_data @ __main__.main : from {f} to {g}',
                             f'{v!r}: rc={o.rc} stdout {o.out[:200]!r}')
    return n, [{'key': k, 'detail': d} for k, d in fails.items()]


def jobs(tier):
    q = tier == 'quick'
    vals = values(4 if q else 5)
    out = [('same', v) for v in vals]
    small = values(3 if q else 4)
    for x in small:
        for z in small:
            from mc.gen import size
            if size(x) + size(z) <= (4 if q else 5) and canon(x) != canon(z):
                out.append(('third', [x, z]))
    # two-key mappings with the same key set and different values, keys written in either order on either side
    vals3 = ('a', 1, 1.5)
    two = []
    for v1 in vals3:
        for v2 in vals3:
            two.append({'a': v1, 'no': v2})
            two.append({'no': v2, 'a': v1})
    for x in two:
        for z in two:
            if canon(x) != canon(z):
                out.append(('third', [x, z]))
    out += [('cli', v) for v in values(3)]
    inners = []
    for k in (1, 2, 3):
        inners.extend(list(t) for t in itertools.product((1, 2) if q else (1, 2, 'a'), repeat=k))
    for shape in SHAPES:
        for x in inners:
            for z in inners:
                out.append(('aliased', [shape, x, z]))
    return out


def _shard(i, n, tier, payload):
    r = Result()
    counts = {}
    for idx, (kind, v) in enumerate(jobs(tier)):
        if idx % n != i:
            continue
        if kind == 'same':
            k, fails = same_eval(v)
        elif kind == 'third':
            k, fails = third_eval(v[0], v[1])
        elif kind == 'aliased':
            k, fails = aliased_eval(v[0], v[1], v[2])
        else:
            k, fails = cli_eval(v)
        r.evaluations += k
        counts[kind] = counts.get(kind, 0) + 1
        for fail in fails:
            r.fail(fail['key'], {'kind': kind, 'value_json': json.dumps(v), 'expect': fail['key']}, fail['detail'], order=idx)
        if not fails:
            r.outcomes.add(h((kind, json.dumps(v))))
        if idx % 997 == 0 and len(r.samples) < 3:
            r.samples.append({'kind': kind, 'value': v})
    r.extra['jobs'] = counts
    return r


def run(ctx):
    return run_sharded(ctx, __name__, '_shard', ctx.workers * 4)


def replay(case):
    v = json.loads(case['value_json'])
    if case['kind'] == 'same':
        fails = same_eval(v)[1]
    elif case['kind'] == 'third':
        fails = third_eval(v[0], v[1])[1]
    elif case['kind'] == 'aliased':
        fails = aliased_eval(v[0], v[1], v[2])[1]
    else:
        fails = cli_eval(v)[1]
    for f in fails:
        if f['key'] == case.get('expect'):
            return f
    return fails[0] if fails else None

"""C05 - results do not depend on how the edit API is driven or on status settings.

leg 0: the library's plain driver (diff + edited_cost) with status output on and off over the whole shared pair space and a family of
lists of near-duplicate mappings: same cost, same script.
Per pair of trees of a reduced pair space (x dict strategy x DEFAULT_PRINTER.quiet):
  leg 1 (E2)  explicit-state BFS over histories of the public operations {bounds, tighten_bounds, is_complete,
              valid, edits (drained), has_non_zero_cost, refine-the-listed-sub-edits} on the real edit returned by A.edits(B); a state is rebuilt
              by replaying its history on fresh objects and merged by mc.canon.fingerprint; from every visited state
              the run is completed and compared with the reference run.
  leg 2 (E3)  the library's own driver (diff loop, on_diff's edits(), edited_cost loop) with <= k extra operations
              injected at every position (deviation bounding).
  leg 3       after the real TreeNode.diff() + edited_cost(), every operation sequence of length <= 3.
  leg 4       command line: --no-status / --quiet / --color / --no-color give the same exit status and script.
Oracle: no operation raises; final cost and canonical script equal the reference (plain driver, quiet off).
"""
import io
import itertools
import json
import sys

from mc.run import Result, h, time_limit, CaseTimeout, run_sharded
from mc import pairspace, cli
from mc.canon import fingerprint
from mc.explore import explore
from mc.gen import DocSpace, cli_flags
from mc.script import ScriptError, canon_script, refine, tighten_fully, site_of, G, sub_edits

ID = 'C05'
LEVEL = 'model_checking'
CASE_TIMEOUT = 120
OPS = ('b', 't', 'c', 'v', 'e', 'z', 's')
RULE = ('per tree pair: BFS over public-operation histories on the real edit object (states merged by object-graph '
        'fingerprint), injection of <= k extra operations into the library driver (deviation bounded), all operation '
        'sequences of length <= 3 after diff(); states = distinct fingerprints, transitions = operations applied')
ASSUMPTIONS = ['suspended generators are fingerprinted by instruction offset and locals (the position of a for-loop '
               'iterator is identified by its loop variables)',
               'quiet is toggled on the import-time DEFAULT_PRINTER object that levenshtein.py consults',
               'the "then sampled" part of the quantifier is sampling and is not done']
MANIFEST = {
    'technique': 'explicit-state model checking of operation histories on the real edit objects (BFS with state merging) plus deviation-bounded choice-point exploration around the library driver',
    'text': 'For each pair of trees in a reduced pair space, every history of the public edit operations up to depth '
            '6 (quick) / 7 (thorough) is executed on the real edit object, states are merged by a fingerprint of the '
            'whole object graph, and from every state the run is completed: it must not raise and must give the same '
            'cost and script as the plain driver; the same for one operation injected anywhere into the driver '
            'loop of TreeNode.diff and for every sequence of <= 3 operations after it, under quiet on and off; the '
            'CLI leg compares status/colour flag combinations.',
    'note': 'Bounded: history depth, injected-operation count and the reduced pair space are reported in the evidence.',
    'design_ref': 'DESIGN.md 4/C05, 3.2, 3.3',
}


class _Null:
    def write(self, s):
        return len(s)

    def flush(self):
        pass

    def isatty(self):
        return False


def set_quiet(q):
    import graphtage.printer as gp
    import graphtage.levenshtein as lv
    import tqdm
    tqdm.tqdm.monitor_interval = 0
    lv.DEFAULT_PRINTER.quiet = q
    gp.DEFAULT_PRINTER.quiet = q


# ---- pair space ----------------------------------------------------------------------------------------------------
def pairs(tier):
    out = []
    nested = [[1], [2], [1, 2], [[1]], [[1], [2]]] if tier == 'quick' else [[1], [2], [1, 2], [[1]], [[1], [2]], [3]]
    # lists of lists: the family in which sub-edits are themselves lazily refined
    lim = 2
    seqs = []
    for n in range(0, lim + 1):
        seqs.extend(list(t) for t in itertools.product(nested, repeat=n))
    for a in seqs:
        for b in seqs:
            if a != b and a and b:
                out.append({'kind': 'json', 'a': a, 'b': b, 'opt': ['auto', 'on']})
    out.append({'kind': 'json', 'a': [[1, 2], [3]], 'b': [[[1], [2]], [3]], 'opt': ['auto', 'on']})
    ds = DocSpace((1, 'ab', None), ('a', 'b'), 3)
    budget = 4 if tier == 'quick' else 5
    for a, b in ds.pairs(budget):
        if type(a) is type(b) and isinstance(a, (list, dict)) and a != b and a and b:
            for opt in pairspace.relevant_options(a, b):
                if opt[1] == 'samelen':
                    continue
                out.append({'kind': 'json', 'a': a, 'b': b, 'opt': list(opt)})
    # mappings with renamed keys and values of mixed type: the only inputs for which the bipartite matcher has a real
    # choice, and for which the order "list sub-edits first" vs "refine first" can matter
    vals = ('abcdefgh', 'abcdefgx', 12345678) if tier == 'quick' else ('abcdefgh', 'abcdefgx', 12345678, 'x')
    for v1, v2, w1, w2 in itertools.product(vals, repeat=4):
        for ds in ('auto', 'match'):
            out.append({'kind': 'json', 'a': {'k1': v1, 'k2': v2}, 'b': {'j1': w1, 'j2': w2}, 'opt': [ds, 'on']})
    # lists whose elements are mappings that share a large unchanged part and differ in one renamed key: interior cells
    # of the Levenshtein matrix then hold edits that are complete long before their bounds are definitive
    bulk = {'x': 'aaaaaaaa', 'y': 'bbbbbbbb'}
    variants = [dict(bulk, name='alice smith'), dict(bulk, nome='alice smyth'), {'q': 1}]
    if tier != 'quick':
        variants.append(dict(bulk, name='alice smyth'))
    seqs2 = [list(t) for t in itertools.product(variants, repeat=2)] + [[v] for v in variants]
    for a in seqs2:
        for b in seqs2:
            if a != b:
                out.append({'kind': 'json', 'a': a, 'b': b, 'opt': ['auto', 'on']})
                # position-wise list edits (single-element lists under the defaults, any equal length with list edits off)
                if len(a) == len(b) == 2:
                    out.append({'kind': 'json', 'a': a, 'b': b, 'opt': ['auto', 'off']})
    for a, b in (('ab', 'ba'), ('abc', 'b'), ('a', 'bab'), ('aab', 'abb')):
        out.append({'kind': 'string', 'a': a, 'b': b, 'opt': ['auto', 'on']})
    xs = pairspace.xml_elements('quick')
    for i in range(0, len(xs), 9):
        for j in range(4, len(xs), 13):
            if xs[i] != xs[j]:
                out.append({'kind': 'xml', 'a': xs[i], 'b': xs[j], 'opt': ['auto', 'on']})
    # multisets (API only): also with an item that occurs several times of which the matcher pairs some copies only
    for a, b in (([1, [1]], [[1], 1, 2]), ([1, 1, 2], [2, 1]), (['ab', 'ab', 'c'], ['ax', 'c']), (['ax', 'c'], ['ab', 'ab', 'c']),
                 ([1, 1], [2]), (['ab', 'ab'], ['ax', 'ay', 'az']), ([[1], [1], 2], [[1, 2], 3])):
        out.append({'kind': 'multiset', 'a': a, 'b': b, 'opt': ['auto', 'on']})
    return out


def make_edit(case):
    ta = pairspace.build(case['kind'], case['a'], case['opt'])
    tb = pairspace.build(case['kind'], case['b'], case['opt'])
    return ta, tb, ta.edits(tb)


def apply_op(e, op):
    g = G()
    if op == 'b':
        return str(e.bounds())
    if op == 't':
        return e.tighten_bounds()
    if op == 'c':
        return e.is_complete()
    if op == 'v':
        return e.valid
    if op == 'e':
        if isinstance(e, g.CompoundEdit):
            return len(list(e.edits()))
        return None
    if op == 'z':
        return e.has_non_zero_cost()
    if op == 's':
        # refine the listed first-level sub-edits directly, as has_non_zero_cost()/edited_cost()/get_all_edit_contexts() do
        if isinstance(e, g.CompoundEdit):
            n = 0
            for sub in list(e.edits()):
                while sub.tighten_bounds():
                    n += 1
                    if n > 100000:
                        raise ScriptError('livelock', 'sub-edit refinement did not end', type(sub).__name__)
            return n
        return None
    raise ValueError(op)


def complete(e):
    tighten_fully(e)
    b = e.bounds()
    if not b.definitive():
        raise ScriptError('not_definitive', str(b), type(e).__name__)
    return int(b.upper_bound), h(canon_script(e))


def reference(case):
    set_quiet(False)
    _, _, e = make_edit(case)
    refine(e)
    return complete(e)


class Failure(Exception):
    def __init__(self, key, detail):
        super().__init__(key)
        self.key = key
        self.detail = detail


def guarded(e, op, hist, where):
    try:
        return apply_op(e, op)
    except CaseTimeout:
        raise
    except Exception as ex:  # noqa
        import traceback
        raise Failure(f'exception {type(ex).__name__} @ {site_of(ex)} : op {op} on {type(e).__name__} ({where})',
                      f'history {hist} then {op}\n' + traceback.format_exc()[-1200:])


def finish_and_compare(e, ref, hist, where):
    try:
        got = complete(e)
    except CaseTimeout:
        raise
    except ScriptError as se:
        raise Failure(f'{se.kind} @ {type(e).__name__} : completing after a history ({where})', f'history {hist}: {se}')
    except Exception as ex:  # noqa
        import traceback
        raise Failure(f'exception {type(ex).__name__} @ {site_of(ex)} : completing {type(e).__name__} ({where})',
                      f'history {hist}\n' + traceback.format_exc()[-1200:])
    if got[0] != ref[0]:
        raise Failure(f'final_cost_differs @ {type(e).__name__} : ({where})', f'history {hist}: cost {got[0]} reference {ref[0]}')
    if got[1] != ref[1]:
        raise Failure(f'final_script_differs @ {type(e).__name__} : ({where})', f'history {hist}: same cost {got[0]}, different script')
    return got


# ---- leg 1: BFS ----------------------------------------------------------------------------------------------------
def bfs(case, quiet, depth, ref, res):
    set_quiet(quiet)
    _, _, e0 = make_edit(case)
    g = G()
    if not isinstance(e0, (g.CompoundEdit, g.StringEdit)):
        return 0, 0
    ops = OPS
    seen = {fingerprint(e0)[0]}
    frontier = [()]
    states, transitions = 1, 0
    for level in range(depth):
        nxt = []
        for hist in frontier:
            for op in ops:
                keep = (make_edit(case))
                e = keep[2]
                for o in hist:
                    apply_op(e, o)
                guarded(e, op, ''.join(hist), f'BFS quiet={quiet}')
                transitions += 1
                fp, opaque = fingerprint(e)
                new = fp not in seen
                if new:
                    seen.add(fp)
                    states += 1
                    nxt.append(hist + (op,))
                    finish_and_compare(e, ref, ''.join(hist) + op, f'BFS quiet={quiet}')
        frontier = nxt
        if not frontier:
            break
    else:
        if frontier:
            res.extra['bfs_depth_cap_hit'] = res.extra.get('bfs_depth_cap_hit', 0) + 1
    res.outcomes |= seen
    return states, transitions


# ---- leg 2: injections into the driver ---------------------------------------------------------------------------
def driver_with_injections(case, quiet, ref, ch):
    set_quiet(quiet)
    keep = make_edit(case)
    e = keep[2]
    log = []

    def inject(label):
        while True:
            c = ch.choose(len(OPS) + 1, label)
            if c == 0:
                return
            log.append(OPS[c - 1])
            guarded(e, OPS[c - 1], ''.join(log), f'driver+injection quiet={quiet}')

    g = G()
    while True:
        inject('pre-valid')
        log.append('v')
        if not e.valid:
            break
        inject('pre-complete')
        log.append('c')
        if e.is_complete():
            break
        inject('pre-tighten')
        log.append('t')
        if not guarded(e, 't', ''.join(log), f'driver quiet={quiet}'):
            break
        inject('pre-bounds')
        log.append('b')
        guarded(e, 'b', ''.join(log), f'driver quiet={quiet}')
    inject('pre-on_diff')
    log.append('e')
    guarded(e, 'e', ''.join(log), f'driver quiet={quiet}')
    while True:
        inject('edited_cost')
        log.append('t')
        if not guarded(e, 't', ''.join(log), f'driver quiet={quiet}'):
            break
    inject('end')
    finish_and_compare(e, ref, ''.join(log), f'driver+injection quiet={quiet}')
    return len(log)


# ---- leg 3: after the real diff ----------------------------------------------------------------------------------
def post_diff(case, quiet, ref, seq):
    set_quiet(quiet)
    ta = pairspace.build(case['kind'], case['a'], case['opt'])
    tb = pairspace.build(case['kind'], case['b'], case['opt'])
    d = ta.diff(tb)
    c0 = d.edited_cost()
    e = d.edit
    for i, op in enumerate(seq):
        guarded(e, op, 'diff();edited_cost();' + ''.join(seq[:i]), f'after diff quiet={quiet}')
    c1 = d.edited_cost()
    if c0 != ref[0] or c1 != ref[0]:
        raise Failure(f'final_cost_differs @ {type(e).__name__} : (after diff quiet={quiet})',
                      f'edited_cost {c0} then {c1} after {seq}, reference {ref[0]}')
    finish_and_compare(e, ref, 'diff();' + ''.join(seq), f'after diff quiet={quiet}')


def evaluate(case, tier, res=None):
    res = res if res is not None else Result()
    old_err = sys.stderr
    sys.stderr = _Null()
    try:
        with time_limit(CASE_TIMEOUT):
            try:
                ref = reference(case)
            except CaseTimeout:
                raise
            except ScriptError as ex:
                # the plain driver (refine, then tighten until no progress) itself does not end in a single value
                return {'key': f'{ex.kind} @ {ex.site or "script"} : reference run (refine, then tighten until no progress)', 'detail': str(ex)}
            except Exception as ex:  # noqa
                return {'key': f'exception {type(ex).__name__} @ {site_of(ex)} : reference run', 'detail': repr(ex)}
            # thorough was depth 8 with <= 2 injected operations at first; that tier never finished within two hours on this
            # machine, so it is depth 7 / 1 injected operation over the larger pair space (stated in DESIGN.md 9.6)
            depth = 6 if tier == 'quick' else 7
            k = 1
            for quiet in (False, True):
                s, t = bfs(case, quiet, depth, ref, res)
                res.states += s
                res.transitions += t
                res.traces += t
                n = 0
                for choices, steps in explore(lambda ch: driver_with_injections(case, quiet, ref, ch), bound=k):
                    n += 1
                res.extra['driver_executions'] = res.extra.get('driver_executions', 0) + n
                res.evaluations += n
                res.transitions += n
                res.traces += n
                maxlen = 2 if tier == 'quick' else 3
                for L in range(0, maxlen + 1):
                    for seq in itertools.product(OPS, repeat=L):
                        post_diff(case, quiet, ref, seq)
                        res.evaluations += 1
                        res.transitions += L
            res.evaluations += 1
            return None
    except Failure as f:
        return {'key': f.key, 'detail': f.detail}
    except CaseTimeout:
        return {'key': f'timeout @ edit API : {case["kind"]}', 'detail': f'> {CASE_TIMEOUT}s'}
    finally:
        sys.stderr = old_err
        set_quiet(True)


# ---- leg 4: CLI flag combinations ----------------------------------------------------------------------------------
def cli_pairs(tier):
    ds = DocSpace((1, 'ab', None), ('a', 'b'), 3)
    out = []
    for a, b in ds.pairs(4 if tier == 'quick' else 5):
        if isinstance(a, (list, dict)) and isinstance(b, (list, dict)):
            out.append((a, b))
    out.append(([[1, 2], [3]], [[[1], [2]], [3]]))
    return out


STATUS = ([], ['--no-status'], ['--quiet'])


def strip_ansi(s):
    import re
    return re.sub(r'\x1b\[[0-9;]*m', '', s)


def cli_eval(a, b):
    import os
    dirp = pairspace.tmpdir()
    fa = cli.write_file(dirp, 'a.json', json.dumps(a))
    fb = cli.write_file(dirp, 'b.json', json.dumps(b))
    outs = {}
    for st in STATUS:
        for col in ('--color', '--no-color'):
            for mode in ([], ['-e']):
                o = cli.run_main(st + [col] + mode + [fa, fb])
                if o.exc:
                    return {'key': f'cli_exception {o.exc} @ {o.exc_site} : flags {" ".join(st + [col] + mode)}', 'detail': o.tb}
                outs[(tuple(st), col, tuple(mode))] = (o.rc, o.out)
    rcs = {v[0] for v in outs.values()}
    if len(rcs) != 1:
        return {'key': 'cli_exit_status_depends_on_flags @ __main__.main : status/colour flags', 'detail': repr({k: v[0] for k, v in outs.items()})}
    for col in ('--color', '--no-color'):
        for mode in ((), ('-e',)):
            texts = {outs[(tuple(st), col, mode)][1] for st in STATUS}
            if len(texts) != 1:
                return {'key': f'cli_output_depends_on_status_flags @ __main__.main : {col} {" ".join(mode)}', 'detail': repr(texts)[:600]}
    e1 = strip_ansi(outs[((), '--color', ('-e',))][1])
    e2 = outs[((), '--no-color', ('-e',))][1]
    if e1 != e2:
        return {'key': 'cli_edit_list_depends_on_colour @ __main__.main : -e', 'detail': f'{e1!r} vs {e2!r}'}
    return None


# ---- leg 0: the plain driver under quiet on / off over a wide pair space ----------------------------------------------
def leg0_cases(tier):
    for idx, case in pairspace.all_cases(tier, docs_budget=4 if tier == 'quick' else 5):
        yield case
    d1 = {'name': 'widget', 'tag': 'fresh'}
    d2 = {'name': 'widget'}
    d3 = {'name': 'widgit', 'tag': 'frosh'}
    syms = (1, d1, d2, d3) if tier == 'quick' else (1, 2, d1, d2, d3)
    by_len = {n: [list(t) for t in itertools.product(syms, repeat=n)] for n in range(1, 5)}
    shapes = [(1, 1), (1, 2), (2, 1), (2, 2), (2, 3), (3, 2), (3, 3)] + ([] if tier == 'quick' else [(3, 4), (4, 3), (2, 4), (4, 2), (1, 3), (3, 1)])
    for la, lb in shapes:
        for a in by_len[la]:
            if not any(isinstance(x, dict) for x in a):
                continue
            for b in by_len[lb]:
                if any(isinstance(x, dict) for x in b) and a != b:
                    yield {'kind': 'json', 'a': a, 'b': b, 'opt': ['auto', 'on'], 'fam': 'lists_of_similar_mappings'}


def plain_result(case, quiet):
    set_quiet(quiet)
    ta = pairspace.build(case['kind'], case['a'], case['opt'])
    tb = pairspace.build(case['kind'], case['b'], case['opt'])
    d = ta.diff(tb)
    cost = d.edited_cost()
    return cost, h(canon_script(d.edit))


def leg0_eval(case):
    old_err = sys.stderr
    sys.stderr = _Null()
    try:
        with time_limit(CASE_TIMEOUT):
            loud = plain_result(case, False)
            quiet = plain_result(case, True)
        if loud[0] != quiet[0]:
            return {'key': f'cost_depends_on_quiet @ TreeNode.diff : {case["kind"]} dict={case["opt"][0]}, lists={case["opt"][1]}',
                    'detail': f'{case["a"]!r} -> {case["b"]!r}: cost {loud[0]} with status output, {quiet[0]} when quiet'}
        if loud[1] != quiet[1]:
            return {'key': f'script_depends_on_quiet @ TreeNode.diff : {case["kind"]} dict={case["opt"][0]}, lists={case["opt"][1]}',
                    'detail': f'{case["a"]!r} -> {case["b"]!r}: same cost {loud[0]}, different script'}
        return None
    except CaseTimeout:
        return {'key': f'timeout @ diff : {case["kind"]}', 'detail': repr(case)[:300]}
    except Exception as ex:  # noqa
        import traceback
        return {'key': f'exception {type(ex).__name__} @ {site_of(ex)} : plain driver, quiet on/off', 'detail': traceback.format_exc()[-900:]}
    finally:
        sys.stderr = old_err
        set_quiet(True)


def _leg0_shard(i, n, tier, payload):
    r = Result()
    for idx, case in enumerate(leg0_cases(tier)):
        if idx % n != i:
            continue
        r.evaluations += 2
        fail = leg0_eval(case)
        if fail:
            r.fail(fail['key'], dict(case, leg0=True), fail['detail'], order=idx)
        else:
            r.outcomes.add(h(('leg0', idx)))
    r.extra['leg0_pairs'] = r.evaluations // 2
    return r


def _shard(i, n, tier, payload):
    r = Result()
    ps = pairs(tier)
    for idx, case in enumerate(ps):
        if idx % n != i:
            continue
        fail = evaluate(case, tier, r)
        if fail:
            r.fail(fail['key'], case, fail['detail'], order=idx)
        if idx % 97 == 0 and len(r.samples) < 3:
            r.samples.append(case)
    cp = cli_pairs(tier)
    for idx, (a, b) in enumerate(cp):
        if idx % n != i:
            continue
        r.evaluations += len(STATUS) * 4
        fail = cli_eval(a, b)
        if fail:
            r.fail(fail['key'], {'cli': [a, b]}, fail['detail'], order=10 ** 6 + idx)
        else:
            r.outcomes.add(h(('cli', a, b)))
    r.extra['pairs'] = len([1 for idx in range(len(ps)) if idx % n == i])
    r.extra['cli_pairs'] = len([1 for idx in range(len(cp)) if idx % n == i])
    return r


def run(ctx):
    res = run_sharded(ctx, __name__, '_shard', ctx.workers * 16)
    res.merge(run_sharded(ctx, __name__, '_leg0_shard', ctx.workers * 4))
    res.extra['bfs_depth'] = 6 if ctx.quick else 7
    res.extra['injected_ops_bound_completed'] = 1
    res.extra['post_diff_sequence_length'] = 2 if ctx.quick else 3
    if res.extra.get('bfs_depth_cap_hit'):
        res.exhaustive = False
        res.caps.append(f'BFS depth cap reached with a non-empty frontier for {res.extra["bfs_depth_cap_hit"]} (pair, quiet) '
                        f'combinations; everything up to that depth is covered')
    return res


def replay(case):
    if case.get('leg0'):
        return leg0_eval(case)
    if 'cli' in case:
        return cli_eval(case['cli'][0], case['cli'][1])
    for tier in ('quick',):
        f = evaluate(case, tier)
        if f:
            return f
    return None

"""C14 - the command line agrees with the library and honours its option spellings.

E1 over the type-selection lattice: for both files independently, selection in {by extension, --X-TYPE, --X-mime M for
every MIME string registered for the type} x file name in {matching extension, mismatching extension, no extension}
(the content is always of the intended type and is not parseable as the type the name suggests), for every ordered pair
of compatible input types x document pairs; plus every alias pair. Oracle: a library-side reference (Filetype lookup by
the *intended* type, build_tree, diff, formatter on a fresh Printer) must give the same stdout bytes and exit status;
alias spellings must be byte-identical to each other.
"""
import io
import itertools
import json
import os
import pickle
import plistlib

from mc.run import Result, h, time_limit, CaseTimeout, run_sharded
from mc import pairspace, cli
from mc.gen import OPTION_SETS, build_options, cli_flags
from mc.script import site_of

ID = 'C14'
LEVEL = 'model_checking'
CASE_TIMEOUT = 60
RULE = ('all type-selection combinations for both files (by extension / --X-TYPE / every registered --X-mime string, x '
        'matching / mismatching / missing extension) over all ordered pairs of compatible input types x document pairs, '
        'and all alias pairs x option sets; distinct = distinct (argv shape, exit status, output)')
ASSUMPTIONS = ['in-process main() on capture streams', 'the reference uses only public library calls and the intended types',
               'input types are paired within compatible families (data: json/json5/yaml/plist; markup: xml/html; csv; pickle)']
MANIFEST = {
    'technique': 'exhaustive enumeration of the CLI type-selection lattice and alias pairs on the real entry point, library-side differential oracle',
    'text': 'Every way of telling the command which type each file has (extension, --from/--to-TYPE, every registered '
            'MIME string) combined with matching, misleading and missing file extensions is run for every ordered pair '
            'of compatible input types; stdout and exit status must equal what the library produces for the intended '
            'types, and equivalent spellings (-k/-ds none, -j/-jl -jd, --X-TYPE/--X-mime) must be byte-identical.',
    'note': 'Documents are few (3 pairs); the option lattice is what is exhaustive.',
    'design_ref': 'DESIGN.md 4/C14',
}

FAMILIES = (('json', 'json5', 'yaml', 'plist'), ('xml', 'html'), ('csv',), ('pickle',))
EXT = {'json': '.json', 'json5': '.json5', 'yaml': '.yml', 'csv': '.csv', 'xml': '.xml', 'html': '.html', 'plist': '.plist', 'pickle': '.pkl'}
DATA_DOCS = [
    ({'k1': 1, 'k2': [1, 2, 3], 'k3': 'abc', 'k4': {'x': 1}}, {'k1': 2, 'k2': [1, 3], 'k3': 'abd', 'k7': [4]}),
    ([1, 'two', [3, {'a': 'b'}]], [1, 'too', [{'a': 'c'}, 4], 5]),
    ({'same': [1, 2]}, {'same': [1, 2]}),
]
XML_DOCS = [
    ('<root a="1" b="2"><item id="1">one</item><x/></root>', '<root a="1" c="3"><item id="1">uno</item><y k="v"/></root>'),
    ('<a>text</a>', '<a><b/>more</a>'),
    ('<a k="v"/>', '<a k="v"/>'),
]
CSV_DOCS = [('name,qty\napple,1\npear,2\n', 'name,qty\napple,1\nplum,2\n'), ('a\n', 'a,b\nc\n'), ('x,y\n', 'x,y\n')]


def content(typ, which, side):
    if typ in ('xml', 'html'):
        return XML_DOCS[which][side]
    if typ == 'csv':
        return CSV_DOCS[which][side]
    doc = DATA_DOCS[which][side]
    if typ == 'json':
        return json.dumps(doc)
    if typ == 'json5':
        return '// json5 only\n' + json.dumps(doc)
    if typ == 'yaml':
        import yaml
        return yaml.safe_dump(doc, default_flow_style=False)     # block style: not valid JSON
    if typ == 'plist':
        return plistlib.dumps(doc)
    if typ == 'pickle':
        return pickle.dumps(doc, protocol=2)
    raise ValueError(typ)


def mismatching_ext(typ):
    return '.xml' if typ in ('json', 'json5', 'yaml', 'plist', 'csv', 'pickle') else '.json'


def selections(typ, side):
    """(argv flags, file-name extension, label) for one file of intended type typ."""
    from graphtage import graphtage as gg
    ft = gg.FILETYPES_BY_TYPENAME[typ]
    out = [([], EXT[typ], 'by-extension')]
    for name_kind, ext in (('matching', EXT[typ]), ('mismatching', mismatching_ext(typ)), ('none', '')):
        out.append(([f'--{side}-{typ}'], ext, f'TYPE/{name_kind}'))
        for m in ft.mimetypes:
            out.append(([f'--{side}-mime', m], ext, f'mime/{name_kind}'))
    return out


def library_reference(fa, fb, tf, tt, opt=('auto', 'on'), color=False, jl=False, jd=False, fmt=None, mode=None):
    """What the library produces for these files when they are parsed as types tf / tt."""
    from graphtage import graphtage as gg
    from graphtage.printer import Printer
    cli.pin_colorama()
    options = build_options(tuple(opt))
    ta = gg.FILETYPES_BY_TYPENAME[tf].build_tree(fa, options)
    tb = gg.FILETYPES_BY_TYPENAME[tt].build_tree(fb, options)
    buf = io.StringIO()
    p = Printer(buf, ansi_color=color, quiet=True, options={'join_lists': jl, 'join_dict_items': jd})
    formatter = gg.FILETYPES_BY_TYPENAME[fmt or tf].get_default_formatter()
    if mode == '-e':
        had = False
        for edit in ta.get_all_edits(tb):
            p.write(str(edit))
            p.newline()
            had = had or edit.has_non_zero_cost()
        p.write('\n')
        return (1 if had else 0), buf.getvalue()
    d = ta.diff(tb)
    formatter.print(p, d)
    p.write('\n')
    had = any(any(e.has_non_zero_cost() for e in n.edit_list) for n in d.dfs())
    return (1 if had else 0), buf.getvalue()


def lattice_cases(tier):
    ndocs = 3
    for fam in FAMILIES:
        for tf in fam:
            for tt in fam:
                for which in range(ndocs):
                    yield {'leg': 'lattice', 'tf': tf, 'tt': tt, 'doc': which}


def lattice_eval(case):
    tf, tt, which = case['tf'], case['tt'], case['doc']
    dirp = pairspace.tmpdir()
    n = 0
    outs = set()
    refs = {}
    for sf in selections(tf, 'from'):
        for st in selections(tt, 'to'):
            fa = cli.write_file(dirp, 'from' + sf[1], content(tf, which, 0))
            fb = cli.write_file(dirp, 'to' + st[1], content(tt, which, 1))
            argv = ['--no-status', '--no-color'] + sf[0] + st[0] + [fa, fb]
            key = (sf[1], st[1])
            if key not in refs:
                try:
                    refs[key] = library_reference(fa, fb, tf, tt)
                except Exception as ex:  # noqa
                    return n, {'key': f'reference_failed {type(ex).__name__} @ {site_of(ex)} : {tf} vs {tt}', 'detail': repr(ex)}, outs
            try:
                with time_limit(CASE_TIMEOUT):
                    o = cli.run_main(argv)
            except CaseTimeout:
                return n, {'key': f'timeout @ __main__.main : {tf} vs {tt}', 'detail': ' '.join(argv)}, outs
            n += 1
            sel = f'from {sf[2]}, to {st[2]}'
            if o.exc:
                return n, {'key': f'cli_exception {o.exc} @ {o.exc_site} : {sel}', 'detail': ' '.join(argv) + '\n' + o.tb[-1200:]}, outs
            want = refs[key]
            if (o.rc, o.out) != want:
                what = 'exit_status' if o.rc != want[0] else 'output'
                return n, {'key': f'cli_{what}_differs_from_library @ __main__.main : {sel}',
                           'detail': f'{" ".join(argv)}\ncli rc={o.rc} out={o.out[:300]!r} err={o.err[:300]!r}\nlibrary rc={want[0]} out={want[1][:300]!r}'}, outs
            outs.add(h((tf, tt, which, sf[2], st[2], o.rc, o.out)))
    return n, None, outs


ALIASES = [
    (['-k'], ['--dict-strategy', 'none']),
    (['-k'], ['-ds', 'none']),
    (['--no-key-edits'], ['-ds', 'none']),
    (['-j'], ['-jl', '-jd']),
    (['--condensed'], ['--join-lists', '--join-dict-items']),
    (['-l'], ['--no-list-edits']),
    (['-ll'], ['--no-list-edits-when-same-length']),
    (['-c'], ['--color']),
    ([], ['--dict-strategy', 'auto']),
]


def alias_cases(tier):
    for ai in range(len(ALIASES)):
        for tf in ('json', 'yaml', 'xml', 'plist'):
            for which in range(3):
                for extra in ([], ['-l'], ['-j'], ['-k'], ['--html'], ['--html', '-k'], ['-e'], ['--format', 'yaml']):
                    yield {'leg': 'alias', 'alias': ai, 'tf': tf, 'doc': which, 'extra': extra}
    # library agreement of every option set and layout
    for opt in OPTION_SETS:
        for tf in ('json', 'yaml', 'plist', 'xml'):
            for which in range(3):
                for lay in ((False, False), (True, False), (False, True), (True, True)):
                    for color in (False, True):
                        yield {'leg': 'options', 'opt': list(opt), 'tf': tf, 'doc': which, 'jl': lay[0], 'jd': lay[1], 'color': color}
    # output format and edit-list mode against the library
    for tf in ('json', 'yaml', 'plist', 'xml', 'csv'):
        for which in range(3):
            for fmt in ('json', 'json5', 'yaml', 'csv', 'xml', 'html', 'plist', 'pickle'):
                for color in (False, True):
                    yield {'leg': 'options', 'opt': ['auto', 'on'], 'tf': tf, 'doc': which, 'jl': False, 'jd': False, 'color': color, 'fmt': fmt}
            for opt in OPTION_SETS:
                yield {'leg': 'options', 'opt': list(opt), 'tf': tf, 'doc': which, 'jl': False, 'jd': False, 'color': False, 'mode': '-e'}


# characters that some line-splitting primitives (str.splitlines) treat as line boundaries but that are ordinary data
SEPARATORS = ('\u2028', '\u2029', '\x85', '\x0c', '\x0b', '\x1c', '\x1d', '\x1e', '\r', ' ')


def status_cases(tier):
    for si in range(len(SEPARATORS)):
        for tf in ('csv', 'xml', 'json', 'yaml'):
            for fmt in (None, 'csv', 'xml', 'json', 'yaml'):
                for mode in (None, '-e'):
                    yield {'leg': 'status', 'sep': si, 'tf': tf, 'fmt': fmt, 'mode': mode}


def status_content(tf, sep, side):
    last = ('b', 'c')[side]
    if tf == 'csv':
        return f'id,note\n1,first{sep}second\n2,{last}\n'
    if tf == 'xml':
        if sep in '\x0c\x0b\x1c\x1d\x1e':
            sep = ' '           # not allowed in XML 1.0 documents
        return f'<r><a t="p{sep}q">x{sep}y</a><b>{last}</b></r>'
    doc = {'note': f'first{sep}second', 'k': last, 'lines': [f'a{sep}', 'z']}
    if tf == 'json':
        return json.dumps(doc, ensure_ascii=False)
    import yaml
    return yaml.safe_dump(doc, allow_unicode=True)


def status_eval(case):
    """The same command with status output on (the default), off and quiet, on streams that look like the standard
    streams of a process: stdout and exit status must be identical, and equal to the plain capture run."""
    dirp = pairspace.tmpdir()
    tf, sep = case['tf'], SEPARATORS[case['sep']]
    fa = cli.write_file(dirp, 'st_a' + EXT[tf], status_content(tf, sep, 0))
    fb = cli.write_file(dirp, 'st_b' + EXT[tf], status_content(tf, sep, 1))
    tail = ['--no-color'] + (['--format', case['fmt']] if case['fmt'] else []) + ([case['mode']] if case['mode'] else []) + [fa, fb]
    ref = cli.run_main(['--no-status'] + tail)
    n = 1
    if ref.exc:
        return n, {'key': f'cli_exception {ref.exc} @ {ref.exc_site} : status leg', 'detail': ' '.join(tail) + ref.tb[-1200:]}, set()
    for flags in ([], ['--no-status'], ['--quiet']):
        o = cli.run_main(flags + tail, like_a_process=True)
        n += 1
        name = ' '.join(flags) or '(status output on)'
        if o.exc:
            return n, {'key': f'cli_exception {o.exc} @ {o.exc_site} : status leg, {name}', 'detail': ' '.join(flags + tail) + o.tb[-1200:]}, set()
        if (o.rc, o.out) != (ref.rc, ref.out):
            return n, {'key': f'output_depends_on_status_setting @ __main__.main : {name} on process-like streams, input {tf}',
                       'detail': f'{" ".join(flags + tail)}; separator {sep!r}; {name}: rc={o.rc} {o.out[:300]!r}; '
                                 f'reference (--no-status, plain stream): rc={ref.rc} {ref.out[:300]!r}'}, set()
    return n, None, {h(('status', json.dumps(case, sort_keys=True), ref.rc, ref.out))}


def default_format_cases(tier):
    """--format defaults to the format of the first file (documented): spelling it out must change nothing, in any mode."""
    for fam in FAMILIES:
        for tf in fam:
            for tt in fam:
                for which in range(3):
                    for mode in (None, '-e', '-d'):
                        yield {'leg': 'default-format', 'tf': tf, 'tt': tt, 'doc': which, 'mode': mode}


def default_format_eval(case):
    dirp = pairspace.tmpdir()
    tf, tt = case['tf'], case['tt']
    fa = cli.write_file(dirp, 'df_a' + EXT[tf], content(tf, case['doc'], 0))
    fb = cli.write_file(dirp, 'df_b' + EXT[tt], content(tt, case['doc'], 1))
    base = ['--no-status', '--no-color'] + ([case['mode']] if case['mode'] else [])
    o1 = cli.run_main(base + [fa, fb])
    o2 = cli.run_main(base + ['--format', tf, fa, fb])
    for o in (o1, o2):
        if o.exc:
            return 2, {'key': f'cli_exception {o.exc} @ {o.exc_site} : default format, mode {case["mode"] or "full"}', 'detail': o.tb[-1200:]}, set()
    if (o1.rc, o1.out) != (o2.rc, o2.out):
        return 2, {'key': f'default_format_is_not_the_first_files @ __main__.main : mode {case["mode"] or "full"}, from {tf} to {tt}',
                   'detail': f'without --format: rc={o1.rc} {o1.out[:300]!r}; with --format {tf}: rc={o2.rc} {o2.out[:300]!r}'}, set()
    return 2, None, {h(('df', json.dumps(case, sort_keys=True), o1.rc, o1.out))}


def conflicts(a, b):
    groups = [{'-k', '--no-key-edits', '-ds', '--dict-strategy'}, {'-l', '-ll', '--no-list-edits', '--no-list-edits-when-same-length'},
              {'-c', '--color', '--no-color'}]
    for g in groups:
        if set(a) & g and set(b) & g:
            return True
    return False


def alias_eval(case):
    dirp = pairspace.tmpdir()
    tf = case['tf']
    fa = cli.write_file(dirp, 'al_a' + EXT[tf], content(tf, case['doc'], 0))
    fb = cli.write_file(dirp, 'al_b' + EXT[tf], content(tf, case['doc'], 1))
    if case['leg'] == 'alias':
        s1, s2 = ALIASES[case['alias']]
        extra = case['extra']
        if conflicts(s1 + s2, extra):
            return 0, None, set()
        base = ['--no-status'] + ([] if (conflicts(s1 + s2, ['--no-color']) or '--html' in extra) else ['--no-color']) + extra
        if '--html' in extra and conflicts(s1 + s2, ['--color']):
            return 0, None, set()
        o1 = cli.run_main(base + s1 + [fa, fb])
        o2 = cli.run_main(base + s2 + [fa, fb])
        for o in (o1, o2):
            if o.exc:
                return 2, {'key': f'cli_exception {o.exc} @ {o.exc_site} : alias {" ".join(s1) or "(default)"}', 'detail': o.tb[-1200:]}, set()
        if (o1.rc, o1.out) != (o2.rc, o2.out):
            return 2, {'key': f'alias_spellings_differ @ __main__.main : {" ".join(s1) or "(default)"} vs {" ".join(s2)}',
                       'detail': f'{tf} doc {case["doc"]} extra {extra}: rc {o1.rc}/{o2.rc}\n{o1.out[:300]!r}\n{o2.out[:300]!r}'}, set()
        return 2, None, {h(('alias', case['alias'], tf, case['doc'], tuple(extra), o1.rc, o1.out))}
    opt = tuple(case['opt'])
    argv = ['--no-status', '--color' if case['color'] else '--no-color'] + cli_flags(opt) + (['-jl'] if case['jl'] else []) + \
           (['-jd'] if case['jd'] else []) + (['--format', case['fmt']] if case.get('fmt') else []) + \
           ([case['mode']] if case.get('mode') else []) + [fa, fb]
    o = cli.run_main(argv)
    if o.exc:
        return 1, {'key': f'cli_exception {o.exc} @ {o.exc_site} : options', 'detail': ' '.join(argv) + o.tb[-1200:]}, set()
    want = library_reference(fa, fb, tf, tf, opt, case['color'], case['jl'], case['jd'], case.get('fmt'), case.get('mode'))
    if (o.rc, o.out) != want:
        what = 'exit_status' if o.rc != want[0] else 'output'
        return 1, {'key': f'cli_{what}_differs_from_library @ __main__.main : options dict={opt[0]}, lists={opt[1]}, jl={case["jl"]}, jd={case["jd"]}',
                   'detail': f'{" ".join(argv)}\ncli rc={o.rc} {o.out[:300]!r}\nlibrary rc={want[0]} {want[1][:300]!r}'}, set()
    return 1, None, {h(('opt', json.dumps(case, sort_keys=True), o.rc, o.out))}


def all_cases(tier):
    return list(lattice_cases(tier)) + list(alias_cases(tier)) + list(status_cases(tier)) + list(default_format_cases(tier))


def evaluate(case):
    try:
        if case['leg'] == 'lattice':
            return lattice_eval(case)
        if case['leg'] == 'status':
            return status_eval(case)
        if case['leg'] == 'default-format':
            return default_format_eval(case)
        return alias_eval(case)
    except CaseTimeout:
        return 0, {'key': 'timeout @ __main__.main', 'detail': json.dumps(case)}, set()
    except Exception as ex:  # noqa
        import traceback
        return 0, {'key': f'exception {type(ex).__name__} @ {site_of(ex)} : {case["leg"]}', 'detail': traceback.format_exc()[-1200:]}, set()


def _shard(i, n, tier, payload):
    r = Result()
    for idx, case in enumerate(all_cases(tier)):
        if idx % n != i:
            continue
        k, fail, outs = evaluate(case)
        r.evaluations += k
        r.outcomes |= outs
        if fail:
            r.fail(fail['key'], case, fail['detail'], order=idx)
        if idx % 211 == 0 and len(r.samples) < 3:
            r.samples.append(case)
    return r


def run(ctx):
    res = run_sharded(ctx, __name__, '_shard', ctx.workers * 8)
    from graphtage import graphtage as gg
    res.extra['registered_mime_strings'] = len(gg.FILETYPES_BY_MIME)
    return res


def replay(case):
    return evaluate(case)[1]

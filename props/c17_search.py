"""C17 - bound-driven search, ordering and separation are correct.

E3: items are synthetic Bounded objects (l, u, f), l <= f <= u in 0..R. On tighten_bounds() the explorer chooses any
strictly smaller sub-interval that still contains f (choice 0: jump to [f, f]). For every ordered collection of n items
and every schedule of such answers (and every outcome of the id() tie-break), the real IterativeTighteningSearch,
bounds.sort, bounds.min_bounded and bounds.make_distinct are run to completion and judged against the finals.
"""
import itertools

from mc.run import Result, h, time_limit, CaseTimeout, run_sharded
from mc import hidden
from mc.explore import explore
from mc.script import site_of

ID = 'C17'
LEVEL = 'model_checking'
CASE_TIMEOUT = 300
RULE = ('all ordered collections of n synthetic interval items over 0..R x all tightening schedules (stateless DFS over '
        'choice points, deviation bound as reported) x both id tie-break outcomes; an execution is one complete run of '
        'search / sort / min_bounded / make_distinct; distinct = distinct (target, collection, schedule outcome)')
ASSUMPTIONS = ['items tighten soundly: every answer is a strict sub-interval containing the final value',
               'initial_bounds given to the search are sound (contain the minimum final value)',
               'WeightedBipartiteMatcher optimality over interval edges is not part of the statement (only its Bounded '
               'behaviour is monitored, under C04)']
MANIFEST = {
    'technique': 'stateless choice-point model checking (all environment schedules, deviation-bounded where stated) of the real search/sort/separation code over synthetic Bounded items',
    'text': 'Every ordered collection of 2-4 interval-valued items over a small integer range is handed to the real '
            'IterativeTighteningSearch (with and without sound initial bounds), bounds.sort, bounds.min_bounded and '
            'bounds.make_distinct while the explorer answers every tighten_bounds() call with every admissible '
            'sub-interval and decides every id() tie: the result must be a minimum / sorted / separated, the bound '
            'single-valued, and every run must end within a step horizon.',
    'note': 'Bounded: (R, n) configurations and deviation bounds are listed in the evidence; ties and identical '
            'intervals are included by construction.',
    'design_ref': 'DESIGN.md 4/C17, 3.3',
}


class Livelock(Exception):
    pass


class Item:
    """A synthetic Bounded item whose tightening is decided by the explorer."""

    def __init__(self, l, u, f, ch, name, budget):
        self.l, self.u, self.f = l, u, f
        self.l0, self.u0 = l, u
        self.ch = ch
        self.name = name
        self.calls = 0
        self.budget = budget

    def bounds(self):
        from graphtage.bounds import Range
        return Range(self.l, self.u)

    def tighten_bounds(self):
        self.budget[0] -= 1
        if self.budget[0] < 0:
            raise Livelock(f'more than the horizon of tighten_bounds() calls; item {self.name}')
        if self.l == self.u:
            return False
        opts = [(self.f, self.f)]
        for a in range(self.l, self.f + 1):
            for b in range(self.f, self.u + 1):
                if (a, b) != (self.l, self.u) and (a, b) != (self.f, self.f):
                    opts.append((a, b))
        k = self.ch.choose(len(opts), f'tighten {self.name}')
        self.l, self.u = opts[k]
        self.calls += 1
        return True

    def __repr__(self):
        return f'{self.name}[{self.l0},{self.u0}->{self.f}]@[{self.l},{self.u}]'


def item_types(R):
    out = []
    for l in range(R + 1):
        for u in range(l, R + 1):
            for f in range(l, u + 1):
                out.append((l, u, f))
    return out


def make_items(coll, ch):
    width = sum(u - l for l, u, f in coll)
    budget = [20 * (width + len(coll)) + 50]
    return [Item(l, u, f, ch, f'i{k}', budget) for k, (l, u, f) in enumerate(coll)], budget


# ---- targets: each returns None or (kind, detail) ------------------------------------------------------------------
def t_search(coll, ch, init=None):
    from graphtage.search import IterativeTighteningSearch
    from graphtage.bounds import Range
    items, budget = make_items(coll, ch)
    ib = None if init is None else Range(init[0], init[1])
    s = IterativeTighteningSearch(iter(items), initial_bounds=ib)
    steps = 0
    horizon = 10 * (sum(u - l for l, u, f in coll) + len(coll)) + 20
    while s.tighten_bounds():
        steps += 1
        if steps > horizon:
            return ('search_livelock', f'tighten_bounds() reported progress {steps} times')
    best = s.best_match
    fmin = min(f for _, _, f in coll)
    if best is None:
        return ('search_no_result', f'best_match is None, finals {[c[2] for c in coll]}')
    if best.f != fmin:
        return ('search_not_minimum', f'best final {best.f}, minimum {fmin}; state {items}')
    b = s.bounds()
    if not b.definitive() or b.upper_bound != fmin:
        return ('search_bound_wrong', f'bounds {b} but minimum final {fmin}; best {best}')
    return None


def t_sort(coll, ch):
    from graphtage import bounds
    items, _ = make_items(coll, ch)
    out = list(bounds.sort(items))
    if len(out) != len(items) or {id(x) for x in out} != {id(x) for x in items}:
        return ('sort_lost_items', f'{len(out)} of {len(items)}')
    finals = [x.f for x in out]
    if any(x.l != x.u for x in out if False):
        pass
    if finals != sorted(finals):
        return ('sort_not_ordered', f'yielded finals {finals}; items {out}')
    return None


def t_min(coll, ch):
    from graphtage import bounds
    items, _ = make_items(coll, ch)
    m = bounds.min_bounded(iter(items))
    fmin = min(f for _, _, f in coll)
    if m is None or m.f != fmin:
        return ('min_bounded_not_minimum', f'returned {m}, minimum {fmin}')
    return None


def t_distinct(coll, ch):
    from graphtage import bounds
    items, _ = make_items(coll, ch)
    bounds.make_distinct(*items)
    for a, b in itertools.combinations(items, 2):
        disjoint = a.u < b.l or b.u < a.l
        both = a.l == a.u and b.l == b.u
        if not (disjoint or both):
            return ('make_distinct_left_overlap', f'{a} and {b} overlap and are not both single-valued')
    return None


def t_matcher(coll, ch, shape=(2, 2)):
    """Only drives the matcher to completion (no optimality claim over interval edges); judged by C04's monitor."""
    from graphtage.matching import WeightedBipartiteMatcher
    items, _ = make_items(coll, ch)
    rows, cols = shape
    table = [[items[r * cols + c] for c in range(cols)] for r in range(rows)]
    m = WeightedBipartiteMatcher(list(range(rows)), list(range(cols)), lambda a, b: table[a][b])
    steps = 0
    while m.tighten_bounds():
        steps += 1
        if steps > 10 * (sum(u - l for l, u, f in coll) + len(coll)) + 20:
            return ('matcher_livelock', f'{steps} progress reports')
    b = m.bounds()
    if not b.definitive():
        return ('matcher_not_definitive', f'bounds {b} after tighten_bounds() returned False')
    return None


TARGETS = {'matcher': t_matcher, 'search': t_search, 'sort': t_sort, 'min_bounded': t_min, 'make_distinct': t_distinct}


def run_one(target, coll, bound, init=None, monitor_hook=None):
    """Explore all schedules for one collection. Returns (executions, failure or None, outcomes)."""
    fn = TARGETS[target]
    n = 0
    outcomes = set()

    def body(ch):
        hidden.CH = ch
        hidden.reset_ids()
        try:
            if monitor_hook:
                monitor_hook('start')
            if target == 'search':
                r = fn(coll, ch, init)
            else:
                r = fn(coll, ch)
            if monitor_hook and r is None:
                r = monitor_hook('end')
            return r
        except Livelock as e:
            return ('livelock', str(e))
        except CaseTimeout:
            raise
        except Exception as ex:  # noqa
            return (f'exception {type(ex).__name__} @ {site_of(ex)}', repr(ex))
        finally:
            hidden.CH = None

    for choices, res in explore(body, bound):
        n += 1
        outcomes.add(h((target, coll, init, tuple(choices))))
        if res is not None:
            return n, {'kind': res[0], 'detail': res[1], 'choices': choices}, outcomes
    return n, None, outcomes


def configs(tier):
    """(target, R, n, deviation bound or None)."""
    if tier == 'quick':
        cfg = [('search', 5, 2, None), ('search', 3, 3, None), ('search', 2, 3, None), ('search', 2, 4, 2),
               ('sort', 4, 2, None), ('sort', 3, 3, 2), ('sort', 2, 4, 2),
               ('min_bounded', 4, 2, None), ('min_bounded', 3, 3, 2), ('min_bounded', 2, 4, 2),
               ('make_distinct', 4, 2, None), ('make_distinct', 3, 3, None), ('make_distinct', 2, 4, 2)]
    else:
        cfg = [('search', 6, 2, None), ('search', 3, 3, None), ('search', 2, 4, 3), ('search', 4, 3, 3),
               ('sort', 5, 2, None), ('sort', 3, 3, 3), ('sort', 2, 4, 2),
               ('min_bounded', 5, 2, None), ('min_bounded', 3, 3, 3), ('min_bounded', 2, 4, 2),
               ('make_distinct', 5, 2, None), ('make_distinct', 3, 3, None), ('make_distinct', 2, 4, 3)]
    return cfg


def jobs(tier):
    out = []
    for target, R, n, bound in configs(tier):
        types = item_types(R)
        for coll in itertools.product(types, repeat=n):
            inits = [None]
            if target == 'search' and R <= 2 and n <= 3:
                fmin = min(c[2] for c in coll)
                inits += [(lo, hi) for lo in range(0, fmin + 1) for hi in range(fmin, R + 1)]
            for init in inits:
                out.append((target, R, n, bound, coll, init))
    return out


def evaluate(job):
    target, R, n, bound, coll, init = job
    coll = tuple(tuple(c) for c in coll)
    init = tuple(init) if init is not None else None
    hidden.install()
    try:
        with time_limit(CASE_TIMEOUT):
            execs, fail, outcomes = run_one(target, coll, bound, init)
    except CaseTimeout:
        return 0, {'key': f'timeout @ {target} : R={R} n={n}', 'detail': repr(coll)}, set()
    finally:
        hidden.uninstall()
    if fail:
        feature = 'with initial_bounds' if init is not None else 'default bounds'
        if target != 'search':
            feature = 'ties present' if len({c[2] for c in coll}) < len(coll) else 'distinct finals'
        return execs, {'key': f'{fail["kind"]} @ {target} : {feature}',
                       'detail': f'items {coll} init {init} schedule {fail["choices"]}: {fail["detail"]}'}, outcomes
    return execs, None, outcomes


def _shard(i, n, tier, payload):
    r = Result()
    per = {}
    for idx, job in enumerate(jobs(tier)):
        if idx % n != i:
            continue
        execs, fail, outcomes = evaluate(job)
        r.evaluations += execs
        r.traces += execs
        r.transitions += execs
        r.states += 1
        key = f'{job[0]} R={job[1]} n={job[2]} deviations={"unbounded" if job[3] is None else job[3]}'
        per[key] = per.get(key, 0) + execs
        r.outcomes |= outcomes
        if fail:
            r.fail(fail['key'], {'target': job[0], 'R': job[1], 'n': job[2], 'bound': job[3], 'coll': [list(c) for c in job[4]],
                                 'init': list(job[5]) if job[5] is not None else None}, fail['detail'], order=idx)
        if idx % 5003 == 0 and len(r.samples) < 4:
            r.samples.append({'target': job[0], 'items(l,u,final)': [list(c) for c in job[4]], 'init': job[5]})
    r.extra['executions_per_configuration'] = per
    r.extra['id_tie_calls'] = hidden.STATS['id_calls']
    return r


def run(ctx):
    res = run_sharded(ctx, __name__, '_shard', ctx.workers * 16)
    res.extra['collections'] = res.states
    return res


def replay(case):
    job = (case['target'], case['R'], case['n'], case['bound'], tuple(tuple(c) for c in case['coll']),
           tuple(case['init']) if case['init'] is not None else None)
    _, fail, _ = evaluate(job)
    return fail

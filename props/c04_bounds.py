"""C04 - cost bounds only tighten, stay sound, and converge.

Every Bounded object (edits, matcher, search) created while the real code diffs every case of mc.pairspace is watched
by mc.monitor at every step, under four drivers (the library's own diff()+edited_cost() passively and actively, full
refinement of TreeNode.edits(), get_all_edits()). Leg (c) replays C17's synthetic tightening schedules with the
monitor attached to the search / matcher objects.
"""
from mc.run import Result, h, time_limit, CaseTimeout, run_sharded
from mc import pairspace, monitor
from mc.script import site_of

ID = 'C04'
LEVEL = 'model_checking'
CASE_TIMEOUT = 20
RULE = ('all cases of mc.pairspace x 4 drivers (diff passive, diff active, full refinement active, get_all_edits '
        'passive) with every Bounded object monitored at every step; distinct = distinct per-case trace of (class, '
        'sequence of exposed ranges) over all objects; non-trivial objects are those observed mid-refinement')
ASSUMPTIONS = ['an exposure is a bounds() call arriving from outside the object; self/super calls made while one of the '
               'object\'s own bounds()/tighten_bounds() runs are intermediate values',
               'objects that became invalid expose Range() by design and are dropped from that point',
               'the active monitor reads bounds() around every step, which is a legal client history (C05)']
MANIFEST = {
    'technique': 'bounded-exhaustive exploration with a runtime monitor of the Bounded protocol evaluated in every state of every refinement sequence',
    'text': 'For every pair of trees of the shared pair space and every build option set, every object implementing '
            'bounds()/tighten_bounds() that the real code creates (nested edits, the matcher inside a multiset edit, '
            'the character-level edit distance inside a string edit) is monitored at every step of four different '
            'refinement drivers: the exposed interval never widens, progress means strict shrink, no-progress means a '
            'single value, every exposed interval contains the final cost, and the number of steps is bounded.',
    'note': 'Bounded by the pair space (docs budget 4 quick / 5 thorough + shape families). Intermediate values read '
            'by an object from itself are not exposures.',
    'design_ref': 'DESIGN.md 4/C04, 3.4',
}

DRIVERS = ('diff_passive', 'diff_active', 'refine_active', 'all_edits_passive')


def drive(name, ta, tb):
    if name.startswith('diff'):
        d = ta.diff(tb)
        d.edited_cost()
    elif name == 'refine_active':
        e = ta.edits(tb)
        n = 0
        while e.tighten_bounds():
            n += 1
            if n > 100000:
                raise RuntimeError('livelock in driver')
        e.bounds()
    else:
        for e in ta.get_all_edits(tb):
            e.bounds()


def evaluate(case):
    kind, opt = case['kind'], case['opt']
    tag = f'{kind} dict={opt[0]}, lists={opt[1]}'
    monitor.install()
    M = monitor.MON
    traces = []
    try:
        with time_limit(CASE_TIMEOUT):
            ta = pairspace.build(kind, case['a'], opt)
            tb = pairspace.build(kind, case['b'], opt)
            for drv in DRIVERS:
                M.reset(active=drv.endswith('active'))
                try:
                    drive(drv, ta, tb)
                except CaseTimeout:
                    raise
                except Exception as ex:  # noqa  exceptions belong to C05; here only bounds behaviour is judged
                    M.stop()
                    return {'key': f'exception {type(ex).__name__} @ {site_of(ex)} : driver {drv}, {tag}',
                            'detail': repr(ex)}, None
                M.finish()
                if M.violations:
                    rule, cls, detail = M.violations[0]
                    return {'key': f'{rule} @ {cls} : driver {drv}, dict={opt[0]}, lists={opt[1]}',
                            'detail': f'{cls}: {detail}; all: {M.violations[:5]}'}, None
                traces.append(tuple(sorted((r['cls'], tuple(r['ranges'])) for r in M.objs.values() if r['mid'])))
            return None, h(tuple(traces))
    except CaseTimeout:
        M.stop()
        return {'key': f'timeout @ diff : {tag}', 'detail': f'> {CASE_TIMEOUT}s'}, None
    finally:
        M.stop()


def _shard(i, n, tier, payload):
    r = Result()
    monitor.MON.by_class = {}
    budget = 4 if tier == 'quick' else 5
    for idx, case in pairspace.shard_cases(tier, i, n, docs_budget=budget):
        r.evaluations += 1
        fail, out = evaluate(case)
        if fail:
            r.fail(fail['key'], case, fail['detail'], order=idx)
        else:
            r.outcomes.add(out)
        if idx % 9973 == 0 and len(r.samples) < 3:
            r.samples.append(case)
    r.extra['monitored'] = {f'{c}.{k}': v for c, st in monitor.MON.by_class.items() for k, v in st.items()}
    return r


def run(ctx):
    res = run_sharded(ctx, __name__, '_shard', ctx.workers * 4)
    res.extra['drivers'] = list(DRIVERS)
    res.extra['classes_wrapped'] = monitor.install()
    return res


def replay(case):
    fail, _ = evaluate(case)
    return fail

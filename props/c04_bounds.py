"""C04 - cost bounds only tighten, stay sound, and converge.

Every Bounded object (edits, matcher, search) created while the real code diffs every case of mc.pairspace is watched
by mc.monitor at every step, under four drivers (the library's own diff()+edited_cost() passively and actively, full
refinement of TreeNode.edits(), get_all_edits()). Leg (c) replays C17's synthetic tightening schedules with the
monitor attached to the search / matcher objects.
"""
from mc.run import Result, h, time_limit, CaseTimeout, run_sharded
from mc import pairspace, monitor
from mc.script import site_of

ID = 'C04'
LEVEL = 'model_checking'
CASE_TIMEOUT = 20
RULE = ('all cases of mc.pairspace x 7 drivers (diff passive, diff active, full refinement active, get_all_edits '
        'passive, sub-edits refined out of band after 1/2/3 parent steps) with every Bounded object monitored at every step; distinct = distinct per-case trace of (class, '
        'sequence of exposed ranges) over all objects; non-trivial objects are those observed mid-refinement')
ASSUMPTIONS = ['an exposure is a bounds() call arriving from outside the object; self/super calls made while one of the '
               'object\'s own bounds()/tighten_bounds() runs are intermediate values',
               'objects that became invalid expose Range() by design and are dropped from that point',
               'the active monitor reads bounds() around every step, which is a legal client history (C05)']
MANIFEST = {
    'technique': 'bounded-exhaustive exploration with a runtime monitor of the Bounded protocol evaluated in every state of every refinement sequence',
    'text': 'For every pair of trees of the shared pair space and every build option set, every object implementing '
            'bounds()/tighten_bounds() that the real code creates (nested edits, the matcher inside a multiset edit, '
            'the character-level edit distance inside a string edit) is monitored at every step of four different '
            'refinement drivers: the exposed interval never widens, progress means strict shrink, no-progress means a '
            'single value, every exposed interval contains the final cost, and the number of steps is bounded.',
    'note': 'Bounded by the pair space (docs budget 4 quick / 5 thorough + shape families). Intermediate values read '
            'by an object from itself are not exposures.',
    'design_ref': 'DESIGN.md 4/C04, 3.4',
}

DRIVERS = ('diff_passive', 'diff_active', 'refine_active', 'all_edits_passive', 'children_out_of_band_1', 'children_out_of_band_2',
           'children_out_of_band_3')


def drive(name, ta, tb):
    if name.startswith('diff'):
        d = ta.diff(tb)
        d.edited_cost()
    elif name == 'refine_active':
        e = ta.edits(tb)
        n = 0
        while e.tighten_bounds():
            n += 1
            if n > 100000:
                raise RuntimeError('livelock in driver')
        e.bounds()
    elif name.startswith('children_out_of_band'):
        # refine the parent k steps, then refine the sub-edits it lists directly (as has_non_zero_cost(), edited_cost() and
        # get_all_edit_contexts() do for nested edits), then come back to the parent
        from mc.script import sub_edits
        k = int(name.rsplit('_', 1)[1])
        e = ta.edits(tb)
        for _ in range(k):
            e.bounds()
            if not e.tighten_bounds():
                break
        e.bounds()
        for s_ in sub_edits(e):
            n = 0
            while s_.tighten_bounds():
                n += 1
                if n > 100000:
                    raise RuntimeError('livelock in driver')
        e.bounds()
        n = 0
        while e.tighten_bounds():
            n += 1
            if n > 100000:
                raise RuntimeError('livelock in driver')
        e.bounds()
    else:
        for e in ta.get_all_edits(tb):
            e.bounds()


def evaluate(case):
    kind, opt = case['kind'], case['opt']
    tag = f'{kind} dict={opt[0]}, lists={opt[1]}'
    monitor.install()
    M = monitor.MON
    traces = []
    try:
        with time_limit(CASE_TIMEOUT):
            ta = pairspace.build(kind, case['a'], opt)
            tb = pairspace.build(kind, case['b'], opt)
            for drv in DRIVERS:
                M.reset(active=drv.endswith('active') or drv.startswith('children'))
                try:
                    drive(drv, ta, tb)
                except CaseTimeout:
                    raise
                except Exception as ex:  # noqa  exceptions belong to C05; here only bounds behaviour is judged
                    M.stop()
                    return {'key': f'exception {type(ex).__name__} @ {site_of(ex)} : driver {drv}, {tag}',
                            'detail': repr(ex)}, None
                M.finish()
                if M.violations:
                    rule, cls, detail = M.violations[0]
                    return {'key': f'{rule} @ {cls} : driver {drv}, dict={opt[0]}, lists={opt[1]}',
                            'detail': f'{cls}: {detail}; all: {M.violations[:5]}'}, None
                traces.append(tuple(sorted((r['cls'], tuple(r['ranges'])) for r in M.objs.values() if r['mid'])))
            return None, h(tuple(traces))
    except CaseTimeout:
        M.stop()
        return {'key': f'timeout @ diff : {tag}', 'detail': f'> {CASE_TIMEOUT}s'}, None
    finally:
        M.stop()


# ---- leg (c): synthetic schedules with the monitor on the search / matcher objects -----------------------------------
def sched_jobs(tier):
    import itertools
    from props import c17_search as c17
    cfg = [('search', 3, 2, None), ('search', 2, 3, None), ('matcher', 1, 4, None), ('matcher', 2, 4, 1)]
    if tier != 'quick':
        cfg = [('search', 4, 2, None), ('search', 3, 3, 3), ('search', 2, 3, None), ('matcher', 1, 4, None), ('matcher', 2, 4, 2), ('matcher', 1, 6, 2)]
    out = []
    for target, R, n, bound in cfg:
        for coll in itertools.product(c17.item_types(R), repeat=n):
            # user-supplied initial_bounds are not used for any pair of trees (C04 quantifies over objects the library
            # creates for a diff); the search's result under sound initial bounds is C17's business
            for init in (None,):
                out.append((target, R, n, bound, coll, init))
    return out


def sched_eval(job):
    from props import c17_search as c17
    from mc import hidden
    target, R, n, bound, coll, init = job
    monitor.install()
    M = monitor.MON

    def hook(phase):
        if phase == 'start':
            M.reset(active=True)
            return None
        M.finish()
        if M.violations:
            rule, cls, detail = M.violations[0]
            return (f'{rule} @ {cls}', detail)
        return None

    hidden.install()
    try:
        with time_limit(CASE_TIMEOUT * 10):
            if target == 'matcher':
                fn = c17.TARGETS['matcher']
                c17.TARGETS['matcher'] = (lambda coll_, ch_: fn(coll_, ch_, (2, n // 2)))
                try:
                    execs, fail, _ = c17.run_one(target, coll, bound, init, hook)
                finally:
                    c17.TARGETS['matcher'] = fn
            else:
                execs, fail, _ = c17.run_one(target, coll, bound, init, hook)
    except CaseTimeout:
        return 0, {'key': f'timeout @ {target} schedules', 'detail': repr(coll)}
    finally:
        M.stop()
        hidden.uninstall()
    if fail:
        return execs, {'key': f'{fail["kind"]} : synthetic schedules on {target}',
                       'detail': f'items {coll} init {init} schedule {fail["choices"]}: {fail["detail"]}'}
    return execs, None


def _sched_shard(i, n, tier, payload):
    r = Result()
    monitor.MON.by_class = {}
    for idx, job in enumerate(sched_jobs(tier)):
        if idx % n != i:
            continue
        execs, fail = sched_eval(job)
        r.evaluations += execs
        r.traces += execs
        r.extra['schedule_executions'] = r.extra.get('schedule_executions', 0) + execs
        if fail:
            r.fail(fail['key'], {'sched': [job[0], job[1], job[2], job[3], [list(c) for c in job[4]], list(job[5]) if job[5] else None]},
                   fail['detail'], order=10 ** 7 + idx)
        else:
            r.outcomes.add(h(('sched', job[0], job[4], job[5])))
    r.extra['monitored_schedules'] = {f'{c}.{k}': v for c, st in monitor.MON.by_class.items() for k, v in st.items()}
    return r


def _shard(i, n, tier, payload):
    r = Result()
    monitor.MON.by_class = {}
    budget = 4 if tier == 'quick' else 5
    for idx, case in pairspace.shard_cases(tier, i, n, docs_budget=budget):
        r.evaluations += 1
        fail, out = evaluate(case)
        if fail:
            r.fail(fail['key'], case, fail['detail'], order=idx)
        else:
            r.outcomes.add(out)
        if idx % 9973 == 0 and len(r.samples) < 3:
            r.samples.append(case)
    r.extra['monitored'] = {f'{c}.{k}': v for c, st in monitor.MON.by_class.items() for k, v in st.items()}
    return r


def run(ctx):
    res = run_sharded(ctx, __name__, '_shard', ctx.workers * 4)
    res.merge(run_sharded(ctx, __name__, '_sched_shard', ctx.workers * 8))
    res.extra['drivers'] = list(DRIVERS)
    res.extra['classes_wrapped'] = monitor.install()
    return res


def replay(case):
    if 'sched' in case:
        t, R, n, bound, coll, init = case['sched']
        return sched_eval((t, R, n, bound, tuple(tuple(c) for c in coll), tuple(init) if init else None))[1]
    fail, _ = evaluate(case)
    return fail

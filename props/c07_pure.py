"""C07 - diffing is a pure, deterministic function of its inputs.

leg 1 (E3)  hidden order: the names `set` / `id` are shadowed in graphtage's module globals by explorer-controlled
            objects; every iteration order (<= 5 elements) and every tie-break rank is enumerated; stdout and exit
            status must be byte-identical over all choices.
leg 2 (E2)  histories: every ordered sequence of 2 (thorough: 3) scenarios inside one process; the output of the last
            call must equal the output of the same scenario run alone in a fresh process.
leg 3 (E1)  input immutability: object-graph fingerprint of both input trees before/after diff(), edited_cost(),
            rendering and get_all_edits(), over mc.pairspace.
leg 5 (E2)  library histories: every ordered pair of small type-confusable document pairs diffed one after the other in a
            pristine forked process; the second result (cost, script, rendering) must equal its fresh-process result.
leg 4       confirmation (not decision): each scenario in real subprocesses under several PYTHONHASHSEEDs on real
            file descriptors; all outputs must agree with each other and with the in-process output of leg 1.
"""
import json
import os
import plistlib

from mc.run import Result, h, time_limit, CaseTimeout, run_sharded
from mc import pairspace, cli, hidden
from mc.canon import fingerprint
from mc.explore import explore
from mc.script import site_of

ID = 'C07'
LEVEL = 'model_checking'
CASE_TIMEOUT = 60
RULE = ('leg1: all permutations of every hash-ordered iteration and all id-rank outcomes reachable from main(); '
        'leg2: all ordered scenario sequences; leg3: all cases of mc.pairspace; leg4: scenarios x hash seeds in '
        'subprocesses; distinct = distinct (scenario, output) / (case, fingerprint)')
ASSUMPTIONS = ['the 2^32 hash seeds are not enumerated; the only seams through which a seed reaches the output '
               '(set iteration, id comparison) are enumerated instead and interception completeness is confirmed by '
               'subprocess runs under 3 (quick) / 5 (thorough) seeds',
               'memo fields (_total_size, cached hashes) are not part of a tree\'s observable state']
MANIFEST = {
    'technique': 'choice-point exploration of hidden iteration order / address ties on the real code, explicit enumeration of invocation histories, fingerprint comparison of inputs; cross-process runs as confirmation',
    'text': 'Every permutation of every set iteration and every outcome of the id() tie-break that the real code '
            'consults while running a scenario is forced by shadowing the builtins in graphtage\'s module globals; '
            'output bytes and exit status must not change. Every ordered pair (triple) of 45 CLI scenarios is run in '
            'one process and the last output compared with a fresh-process run. Both input trees are fingerprinted '
            'before and after diff/edited_cost/render/get_all_edits for every case of the shared pair space.',
    'note': 'Hash seeds themselves are not enumerable (2^32); a new hash-ordered seam outside the shadowed modules is '
            'only noticed by the 5-seed subprocess confirmation.',
    'design_ref': 'DESIGN.md 4/C07, 1.1',
}

MEMO = ('_total_size', '_LeafNode__hash', '_KeyValuePairNode__hash')

# ---- scenarios -----------------------------------------------------------------------------------------------------
DOC_A = {'k1': 1, 'k2': [1, 2, 3], 'k3': 'abc', 'k4': {'x': 1}, 'k5': None, 'k6': True}
DOC_B = {'k1': 2, 'k7': [1, 3], 'k8': 'abd', 'k9': 'x', 'k10': 7, 'k11': [], 'k12': 'y'}
XML_A = '<root a="1" b="2"><item id="1">one</item><item id="2">two</item><x/></root>'
XML_B = '<root a="1" c="3"><item id="1">uno</item><y k="v"/><item id="3">three</item></root>'
CSV_A = 'name,qty\napple,1\npear,2\nfig,3\n'
CSV_B = 'name,qty\napple,1\nplum,2\n'


def scenario_files(dirp):
    import yaml
    files = {}
    files['json'] = (cli.write_file(dirp, 'a.json', json.dumps(DOC_A)), cli.write_file(dirp, 'b.json', json.dumps(DOC_B)))
    files['yaml'] = (cli.write_file(dirp, 'a.yml', yaml.safe_dump(DOC_A)), cli.write_file(dirp, 'b.yml', yaml.safe_dump(DOC_B)))
    files['xml'] = (cli.write_file(dirp, 'a.xml', XML_A), cli.write_file(dirp, 'b.xml', XML_B))
    files['csv'] = (cli.write_file(dirp, 'a.csv', CSV_A), cli.write_file(dirp, 'b.csv', CSV_B))
    pa = {k: v for k, v in DOC_A.items() if v is not None}
    files['plist'] = (cli.write_file(dirp, 'a.plist', plistlib.dumps(pa)), cli.write_file(dirp, 'b.plist', plistlib.dumps(DOC_B)))
    files['json-ml'] = (cli.write_file(dirp, 'ml_a.json', json.dumps(ML_A)), cli.write_file(dirp, 'ml_b.json', json.dumps(ML_B)))
    files['yaml-ml'] = (cli.write_file(dirp, 'ml_a.yml', yaml.safe_dump(ML_A)), cli.write_file(dirp, 'ml_b.yml', yaml.safe_dump(ML_B)))
    files['yaml-s'] = (cli.write_file(dirp, 's_a.yml', yaml.safe_dump({'name': 'hello'})), cli.write_file(dirp, 's_b.yml', yaml.safe_dump({'name': 'help'})))
    return files


FORMATS = ('json', 'yaml', 'xml', 'csv', 'plist')
MATCH = ([], ['-k'], ['-l'])
RENDER = (['--no-color'], ['--color'], ['--html'])


ML_A = {'text': 'line one\nline two', 'name': 'hello', 'k': [1, 2]}
ML_B = {'text': 'line one\nline 2', 'name': 'help', 'k': [1, 3]}


def scenarios(tier):
    out = []
    for f in FORMATS:
        for m in MATCH:
            for r in RENDER:
                out.append((f, tuple(m), tuple(r)))
    # documents whose string edits contain / do not contain newlines (formatter flags that survive a call)
    for f in ('json-ml', 'yaml-ml', 'yaml-s'):
        for r in RENDER[:2]:
            out.append((f, (), tuple(r)))
    return out


def argv_of(sc, files):
    f, m, r = sc
    return ['--no-status'] + list(m) + list(r) + list(files[f])


# ---- leg 1 ---------------------------------------------------------------------------------------------------------
def dict_pairs():
    keys = ['k1', 'k2', 'k3', 'k4', 'k5']
    out = []
    import itertools
    for n in range(0, 6):
        for ks in itertools.combinations(keys, n):
            a = {k: 1 for k in ks}
            for b in ({}, {'k1': 1}, {'k1': 2, 'k2': 1}, {'k9': [1]}):
                out.append((a, b))
    return out


def leg1_case(a, b, flags, dirp):
    fa = cli.write_file(dirp, 'h_a.json', json.dumps(a))
    fb = cli.write_file(dirp, 'h_b.json', json.dumps(b))
    outs = {}
    n = 0
    points = 0
    hidden.install()
    try:
        def run(ch):
            hidden.CH = ch
            hidden.reset_ids()
            try:
                o = cli.run_main(['--no-status', '--no-color'] + flags + [fa, fb])
            finally:
                hidden.CH = None
            return o
        for choices, o in explore(run, bound=None, max_executions=5000):
            n += 1
            points = max(points, len(choices))
            if o.exc:
                return n, points, {'key': f'cli_exception {o.exc} @ {o.exc_site} : hidden-order leg', 'detail': o.tb}
            outs.setdefault((o.rc, o.out), choices)
            if len(outs) > 1:
                (k1, c1), (k2, c2) = list(outs.items())[:2]
                return n, points, {'key': f'output_depends_on_hidden_order @ set/id seam : flags {" ".join(flags) or "(default)"}',
                                   'detail': f'A={a} B={b}: choices {c1} -> {k1[1]!r}; choices {c2} -> {k2[1]!r}'}
    finally:
        hidden.uninstall()
    return n, points, None


def _leg1_shard(i, n, tier, payload):
    r = Result()
    dirp = pairspace.tmpdir()
    for idx, (a, b) in enumerate(dict_pairs()):
        for fi, flags in enumerate(([], ['-k'], ['--dict-strategy', 'match'])):
            if (idx * 3 + fi) % n != i:
                continue
            with time_limit(CASE_TIMEOUT * 5):
                execs, points, fail = leg1_case(a, b, flags, dirp)
            r.evaluations += execs
            r.traces += execs
            r.extra['leg1_executions'] = r.extra.get('leg1_executions', 0) + execs
            r.extra['leg1_max_choice_points'] = max(r.extra.get('leg1_max_choice_points', 0), points)
            if fail:
                r.fail(fail['key'], {'leg': 1, 'a': a, 'b': b, 'flags': flags}, fail['detail'], order=idx)
            else:
                r.outcomes.add(h(('leg1', a, b, flags)))
    r.extra['leg1_set_choice_points'] = hidden.STATS['set_choice_points']
    r.extra['leg1_set_iterations'] = hidden.STATS['set_iterations']
    r.extra['leg1_id_calls'] = hidden.STATS['id_calls']
    return r


# ---- leg 2 + 4 -----------------------------------------------------------------------------------------------------
def _subproc(args):
    sc, argv, seed = args
    rc, out, err = cli.run_subprocess(argv, hashseed=seed)
    return sc, seed, rc, out


def strip_ansi(text):
    import re
    return re.sub(r'\x1b\[[0-9;]*[a-zA-Z]', '', text)


def _solo(args):
    sc, files = args
    o = cli.run_main(argv_of(sc, files))
    return sc, (o.rc if not o.exc else f'exception {o.exc}', o.out)


def _run_history(args):
    seq, files = args
    last = None
    for sc in seq:
        last = cli.run_main(argv_of(sc, files))
    return (last.rc, last.out, last.exc, last.exc_site, last.tb)


class _Last:
    pass


def _history(args):
    """One history, executed in a pristine forked child so that nothing but the history itself can influence it."""
    seq, files, want = args
    status, res = in_fresh_child(_run_history, (seq, files))
    last = _Last()
    if status != 'ok':
        last.rc, last.out, last.exc, last.exc_site, last.tb = None, '', 'ChildFailure', 'harness', str(res)
    else:
        last.rc, last.out, last.exc, last.exc_site, last.tb = res
    sc = seq[-1]
    if last.exc:
        return seq, {'key': f'cli_exception {last.exc} @ {last.exc_site} : after history', 'detail': last.tb}
    if (last.rc, last.out) != want:
        return seq, {'key': f'output_depends_on_history @ __main__.main : last scenario {sc[0]} {" ".join(sc[1] + sc[2])}',
                     'detail': f'history {seq}: got rc={last.rc} {last.out[:300]!r}; fresh process rc={want[0]} {want[1][:300]!r}'}
    return seq, None


# ---- leg 3 ---------------------------------------------------------------------------------------------------------
def leg3_eval(case):
    kind, opt = case['kind'], case['opt']
    tag = f'{kind} dict={opt[0]}, lists={opt[1]}'
    try:
        with time_limit(CASE_TIMEOUT):
            ta = pairspace.build(kind, case['a'], opt)
            tb = pairspace.build(kind, case['b'], opt)
            ta.total_size, tb.total_size
            before = fingerprint((ta, tb), skip_attrs=MEMO, drop_class_defaults=True)[0]
            d = ta.diff(tb)
            d.edited_cost()
            after = fingerprint((ta, tb), skip_attrs=MEMO, drop_class_defaults=True)[0]
            if after != before:
                return {'key': f'input_tree_changed @ TreeNode.diff : {tag}', 'detail': f'A={case["a"]!r} B={case["b"]!r}'}
            if kind in ('json', 'xml'):
                from props.c02_equal import render
                render(d, True)
                after = fingerprint((ta, tb), skip_attrs=MEMO, drop_class_defaults=True)[0]
                if after != before:
                    return {'key': f'input_tree_changed @ rendering the diff : {tag}', 'detail': f'A={case["a"]!r} B={case["b"]!r}'}
            for e in ta.get_all_edits(tb):
                e.bounds()
            after = fingerprint((ta, tb), skip_attrs=MEMO, drop_class_defaults=True)[0]
            if after != before:
                return {'key': f'input_tree_changed @ TreeNode.get_all_edits : {tag}', 'detail': f'A={case["a"]!r} B={case["b"]!r}'}
            # a second diff of the same trees gives the same result (repeated calls in one process)
            d2 = ta.diff(tb)
            if d2.edited_cost() != d.edited_cost():
                return {'key': f'second_diff_differs @ TreeNode.diff : {tag}', 'detail': f'{d.edited_cost()} then {d2.edited_cost()}'}
            # a diff tree is itself a tree that can be given to a comparison: it must not be altered either, and
            # repeating that comparison must give the same result
            cost_d = d.edited_cost()
            before_d = fingerprint((d, tb), skip_attrs=MEMO, drop_class_defaults=True)[0]
            g1 = d.diff(tb).edited_cost()
            g2 = d.diff(tb).edited_cost()
            after_d = fingerprint((d, tb), skip_attrs=MEMO, drop_class_defaults=True)[0]
            if after_d != before_d or d.edited_cost() != cost_d:
                return {'key': f'input_tree_changed @ TreeNode.diff of a diff tree : {kind}', 'detail': f'A={case["a"]!r} B={case["b"]!r} ({tag})'}
            if g1 != g2:
                return {'key': f'second_diff_differs @ TreeNode.diff of a diff tree : {kind}', 'detail': f'{g1} then {g2} ({tag})'}
            return None
    except CaseTimeout:
        return {'key': f'timeout @ diff : {tag}', 'detail': ''}
    except Exception as ex:  # noqa
        import traceback
        return {'key': f'exception {type(ex).__name__} @ {site_of(ex)} : {tag}', 'detail': traceback.format_exc()[-1200:]}


def _leg3_shard(i, n, tier, payload):
    r = Result()
    for idx, case in pairspace.shard_cases(tier, i, n, docs_budget=4 if tier == 'quick' else 5):
        r.evaluations += 1
        fail = leg3_eval(case)
        if fail:
            r.fail(fail['key'], dict(case, leg=3), fail['detail'], order=idx)
        else:
            r.outcomes.add(h(('leg3', idx)))
    return r


# ---- leg 5: library-level histories from a pristine process ---------------------------------------------------------
def lib_cases(tier):
    import itertools
    if tier == 'quick':
        docs = [[], [1], ['1'], [True], [1, '1'], ['1', 1], [1, 2, 3], [0, 1, 2]]
    else:
        alpha = (1, '1', True, 0)
        docs = []
        for n in range(0, 3):
            docs.extend(list(t) for t in itertools.product(alpha, repeat=n))
        docs += [[1, 2, 3], [0, 1, 2]]
    docs += [{'a': 1}, {'a': '1'}, {'a': True}]
    out = []
    for a in docs:
        for b in docs:
            if type(a) is type(b):
                out.append((a, b))
    return out


def lib_result(pair):
    from mc.script import canon_script, refine, tighten_fully
    a, b = pair
    ta = pairspace.build('json', a, ['auto', 'on'])
    tb = pairspace.build('json', b, ['auto', 'on'])
    d = ta.diff(tb)
    cost = d.edited_cost()
    e = ta.edits(tb)
    refine(e)
    tighten_fully(e)
    from props.c02_equal import render
    return (cost, h(canon_script(e)), render(d, False))


def in_fresh_child(fn, arg):
    """Run fn(arg) in a forked child of this (pristine) process and return its pickled result."""
    import os
    import pickle
    r, w = os.pipe()
    pid = os.fork()
    if pid == 0:
        try:
            os.close(r)
            try:
                out = ('ok', fn(arg))
            except BaseException as e:  # noqa
                out = ('exc', f'{type(e).__name__}: {e}')
            with os.fdopen(w, 'wb') as f:
                pickle.dump(out, f)
        finally:
            os._exit(0)
    os.close(w)
    with os.fdopen(r, 'rb') as f:
        data = f.read()
    os.waitpid(pid, 0)
    return pickle.loads(data) if data else ('exc', 'child died')


def _two(args):
    c1, c2 = args
    lib_result(c1)
    return lib_result(c2)


def _leg5_shard(i, n, tier, payload):
    r = Result()
    cases = lib_cases(tier)
    fresh = {}
    k = 0
    for j, c2 in enumerate(cases):
        for c1 in cases:
            if k % n == i:
                if j not in fresh:
                    fresh[j] = in_fresh_child(lib_result, c2)
                got = in_fresh_child(_two, (c1, c2))
                r.evaluations += 1
                r.transitions += 2
                r.traces += 1
                if got != fresh[j]:
                    what = 'cost' if got[0] == 'ok' and fresh[j][0] == 'ok' and got[1][0] != fresh[j][1][0] else 'script_or_rendering'
                    r.fail(f'library_result_depends_on_history @ TreeNode.diff : {what} of the second comparison',
                           {'leg': 5, 'first': list(c1), 'second': list(c2)},
                           f'after diffing {c1!r}: {c2!r} gives {got!r}; in a fresh process {fresh[j]!r}', order=k)
                else:
                    r.outcomes.add(h(('leg5', k)))
            k += 1
    r.extra['leg5_histories'] = r.evaluations
    return r


def run(ctx):
    res = Result()
    import time as _t
    t_start = _t.time()
    marks = {}
    import tempfile
    import shutil
    dirp = tempfile.mkdtemp(prefix='gtverif_c07_')
    try:
        files = scenario_files(dirp)
        scs = scenarios(ctx.tier)
        # leg 4 first: fresh-process outputs under several seeds (also the reference for leg 2)
        seeds = sorted({0, 1, (ctx.seed % 1000) + 4}) if ctx.quick else sorted({0, 1, 2, 3, (ctx.seed % 1000) + 4})
        jobs = [(sc, argv_of(sc, files), s) for sc in scs for s in seeds]
        sub = {}
        for sc, seed, rc, out in ctx.map(_subproc, jobs):
            res.evaluations += 1
            if sc in sub and sub[sc] != (rc, out):
                res.fail(f'output_depends_on_hash_seed @ subprocess : {sc[0]} {" ".join(sc[1] + sc[2])}',
                         {'leg': 4, 'scenario': [sc[0], list(sc[1]), list(sc[2])], 'seeds': seeds},
                         f'seed {seed}: rc={rc} {out[:300]!r} vs first seed rc={sub[sc][0]} {sub[sc][1][:300]!r}')
            sub.setdefault(sc, (rc, out))
            res.outcomes.add(h(('leg4', sc, rc, out)))
        marks['leg4_subprocesses_s'] = round(_t.time() - t_start, 1)
        res.extra['leg4_subprocess_runs'] = len(jobs)
        res.extra['leg4_seeds'] = seeds
        # in-process reference: each scenario alone in a pristine forked child of this (so far main()-free) process
        import multiprocessing
        with multiprocessing.get_context('fork').Pool(ctx.workers, maxtasksperchild=1) as fresh_pool:
            fresh_list = fresh_pool.map(_solo, [(sc, files) for sc in scs], 1)
        fresh = dict(fresh_list)
        for sc in scs:
            rc, out = fresh[sc]
            # a real process writes through colorama's stream wrapper, which strips ANSI sequences on a pipe
            if (rc, strip_ansi(out)) != (sub[sc][0], strip_ansi(sub[sc][1])):
                res.fail(f'in_process_differs_from_subprocess @ harness/real fd path : {sc[0]} {" ".join(sc[1] + sc[2])}',
                         {'leg': 4, 'scenario': [sc[0], list(sc[1]), list(sc[2])], 'seeds': seeds, 'inproc': True},
                         f'in-process rc={rc} {strip_ansi(out)[:300]!r}; subprocess rc={sub[sc][0]} {sub[sc][1][:300]!r}')
        # leg 2
        import itertools
        L = 2 if ctx.quick else 3
        if ctx.quick:
            seqs = list(itertools.product(scs, repeat=2))
        else:
            reduced = [sc for sc in scs if sc[2] != ('--html',) or sc[1] == ()]
            seqs = list(itertools.product(scs, repeat=2)) + list(itertools.product(reduced, repeat=3))
        for seq, fail in ctx.map(_history, [(seq, files, fresh[seq[-1]]) for seq in seqs], chunksize=16):
            res.evaluations += 1
            res.transitions += len(seq)
            if fail:
                res.fail(fail['key'], {'leg': 2, 'history': [[s[0], list(s[1]), list(s[2])] for s in seq]}, fail['detail'])
        res.states += len(scs)
        res.traces += len(seqs)
        res.extra['leg2_histories'] = len(seqs)
        res.extra['leg2_history_length'] = L
        res.samples.append({'leg': 2, 'history': [[s[0], list(s[1]), list(s[2])] for s in seqs[len(seqs) // 3]]})
    finally:
        shutil.rmtree(dirp, ignore_errors=True)
    marks['leg2_histories_done_s'] = round(_t.time() - t_start, 1)
    res.merge(run_sharded(ctx, __name__, '_leg1_shard', ctx.workers * 2))
    marks['leg1_done_s'] = round(_t.time() - t_start, 1)
    res.merge(run_sharded(ctx, __name__, '_leg3_shard', ctx.workers * 4))
    marks['leg3_done_s'] = round(_t.time() - t_start, 1)
    res.merge(run_sharded(ctx, __name__, '_leg5_shard', ctx.workers * 4))
    marks['leg5_done_s'] = round(_t.time() - t_start, 1)
    res.extra['elapsed_marks'] = marks
    res.samples.append({'leg': 1, 'a': {'k1': 1, 'k2': 1, 'k3': 1}, 'b': {}, 'flags': ['-k']})
    return res


def replay(case):
    leg = case.get('leg')
    if leg == 3:
        return leg3_eval(case)
    if leg == 5:
        c1, c2 = tuple(case['first']), tuple(case['second'])
        fresh = in_fresh_child(lib_result, c2)
        got = in_fresh_child(_two, (c1, c2))
        if got != fresh:
            what = 'cost' if got[0] == 'ok' and fresh[0] == 'ok' and got[1][0] != fresh[1][0] else 'script_or_rendering'
            return {'key': f'library_result_depends_on_history @ TreeNode.diff : {what} of the second comparison',
                    'detail': f'{got!r} vs fresh {fresh!r}'}
        return None
    if leg == 1:
        with time_limit(CASE_TIMEOUT * 5):
            _, _, fail = leg1_case(case['a'], case['b'], case['flags'], pairspace.tmpdir())
        return fail
    import tempfile
    import shutil
    dirp = tempfile.mkdtemp(prefix='gtverif_c07_')
    try:
        files = scenario_files(dirp)
        if leg == 2:
            seq = tuple((s[0], tuple(s[1]), tuple(s[2])) for s in case['history'])
            import multiprocessing
            with multiprocessing.get_context('fork').Pool(1, maxtasksperchild=1) as fp:
                _, want = fp.map(_solo, [(seq[-1], files)])[0]
            _, fail = _history((seq, files, want))
            return fail
        if leg == 4:
            sc = (case['scenario'][0], tuple(case['scenario'][1]), tuple(case['scenario'][2]))
            outs = {}
            for s in case['seeds']:
                rc, out, _ = cli.run_subprocess(argv_of(sc, files), hashseed=s)
                outs.setdefault((rc, out), s)
            if len(outs) > 1:
                return {'key': f'output_depends_on_hash_seed @ subprocess : {sc[0]} {" ".join(sc[1] + sc[2])}', 'detail': repr(list(outs.values()))}
    finally:
        shutil.rmtree(dirp, ignore_errors=True)
    return None

"""C03 - the reported cost equals the sum of its parts, in every view.

E1 over mc.pairspace. Relational oracle, no expected values: after full refinement the top-level edit has a single
cost c; every compound edit's cost equals the sum of the costs of the sub-edits it lists (recursively);
A.diff(B).edited_cost() == c; the costs of A.get_all_edits(B) sum to c.
"""
from mc.run import Result, h, time_limit, CaseTimeout, run_sharded
from mc import pairspace
from mc.script import ScriptError, refine, tighten_fully, site_of, sub_edits, G

ID = 'C03'
LEVEL = 'model_checking'
CASE_TIMEOUT = 10
RULE = ('bounded-exhaustive enumeration of mc.pairspace x build options; for each case the cost tree of the fully '
        'refined script is walked; distinct = distinct (edit class, cost) tree')
ASSUMPTIONS = ['same alphabets and budgets as C01', 'a sub-edit that is still an interval after its parent became '
               'definitive is tightened to the end before being summed (a legal client action)']
MANIFEST = {
    'technique': 'bounded-exhaustive exploration of input pairs x build options on the real code, relational cost oracle',
    'text': 'For every pair of trees of the shared pair space under every build option set, the fully refined edit '
            'is walked: each compound edit must cost exactly the sum of the sub-edits it lists, and the total must be '
            'the same when read from the top-level edit, from EditedTreeNode.edited_cost() and from get_all_edits().',
    'note': 'Bounded by node budget 5/6 and small alphabets; purely relational, no hand-written expected costs.',
    'design_ref': 'DESIGN.md 4/C03',
}


def final_cost(e):
    tighten_fully(e)
    b = e.bounds()
    if not b.definitive():
        raise ScriptError('not_definitive', f'{type(e).__name__} bounds {b} after tighten_bounds() returned False',
                          type(e).__name__)
    return int(b.upper_bound)


def cost_tree(e, case, fails):
    """(class, cost, subtrees); records the first compound whose cost differs from the sum of its parts."""
    g = G()
    c = final_cost(e)
    subs = sub_edits(e)
    trees = [cost_tree(s, case, fails) for s in subs]
    if isinstance(e, (g.CompoundEdit, g.StringEdit)) and not isinstance(e, g.edits.PossibleEdits):
        total = sum(t[1] for t in trees)
        if total != c and not fails:
            fails.append((e, c, total))
    return (type(e).__name__, c, tuple(trees))


def feature(e, case):
    fn, tn = getattr(e, 'from_node', None), getattr(e, 'to_node', None)
    try:
        lf, lt = len(fn.children()), len(tn.children())
        rel = 'from longer' if lf > lt else 'to longer' if lt > lf else 'same length'
    except Exception:  # noqa
        rel = 'n/a'
    ds, lm = case['opt']
    return f'{rel}, dict={ds}, lists={lm}'


def evaluate(case):
    kind, opt = case['kind'], case['opt']
    try:
        with time_limit(CASE_TIMEOUT):
            ta = pairspace.build(kind, case['a'], opt)
            tb = pairspace.build(kind, case['b'], opt)
            e = ta.edits(tb)
            refine(e)
            fails = []
            try:
                tree = cost_tree(e, case, fails)
            except ScriptError as se:
                return {'key': f'{se.kind} @ {se.site} : {kind} dict={opt[0]}, lists={opt[1]}', 'detail': str(se)}, None
            if fails:
                fe, c, total = fails[0]
                return {'key': f'parent_ne_sum_of_parts @ {type(fe).__name__} : {feature(fe, case)}',
                        'detail': f'{type(fe).__name__}.bounds() = {c}, listed sub-edits sum to {total}: '
                                  f'{[(type(s).__name__, str(s.bounds())) for s in sub_edits(fe)]}'}, None
            c = tree[1]
            # view 2: annotated diff tree (fresh trees: a diff must not depend on an earlier one, see C07)
            ta2 = pairspace.build(kind, case['a'], opt)
            tb2 = pairspace.build(kind, case['b'], opt)
            d = ta2.diff(tb2)
            ec = d.edited_cost()
            if ec != c:
                return {'key': f'edited_cost_ne_total @ {type(d.edit).__name__} : {feature(d.edit, case)}',
                        'detail': f'edited_cost()={ec}, refined top-level edit={c}'}, None
            # view 3: flat list
            ta3 = pairspace.build(kind, case['a'], opt)
            tb3 = pairspace.build(kind, case['b'], opt)
            flat = 0
            for fe in ta3.get_all_edits(tb3):
                flat += final_cost(fe)
            if flat != c:
                return {'key': f'all_edits_ne_total @ {type(e).__name__} : {feature(e, case)}',
                        'detail': f'sum over get_all_edits()={flat}, refined top-level edit={c}'}, None
            # view 4: a diff tree is still the first document - comparing it (a second generation) with the second
            # document costs the same, and with the first document nothing
            gen2 = d.diff(pairspace.build(kind, case['b'], opt)).edited_cost()
            if gen2 != c:
                return {'key': f'second_generation_cost_differs @ {type(d).__name__.replace("Edited", "")}.diff of a diff tree : {kind}',
                        'detail': f'A.diff(B).diff(B).edited_cost()={gen2}, A.diff(B).edited_cost()={c}'}, None
            back = d.diff(pairspace.build(kind, case['a'], opt)).edited_cost()
            if back != 0:
                return {'key': f'second_generation_cost_differs @ {type(d).__name__.replace("Edited", "")}.diff of a diff tree : {kind}, against the first document',
                        'detail': f'A.diff(B).diff(A).edited_cost()={back}'}, None
            return None, h(tree)
    except CaseTimeout:
        return {'key': f'timeout @ diff : {kind} dict={opt[0]}, lists={opt[1]}', 'detail': f'> {CASE_TIMEOUT}s'}, None
    except Exception as ex:  # noqa
        import traceback
        return {'key': f'exception {type(ex).__name__} @ {site_of(ex)} : {kind} dict={opt[0]}, lists={opt[1]}',
                'detail': traceback.format_exc()[-1500:]}, None


def _shard(i, n, tier, payload):
    r = Result()
    fams = {}
    for idx, case in pairspace.shard_cases(tier, i, n):
        r.evaluations += 1
        fams[case['fam']] = fams.get(case['fam'], 0) + 1
        fail, out = evaluate(case)
        if fail:
            r.fail(fail['key'], case, fail['detail'], order=idx)
        else:
            r.outcomes.add(out)
        if idx % 9973 == 0 and len(r.samples) < 3:
            r.samples.append(case)
    r.extra['cases_per_family'] = fams
    return r


def run(ctx):
    return run_sharded(ctx, __name__, '_shard', ctx.workers * 4)


def replay(case):
    fail, _ = evaluate(case)
    return fail

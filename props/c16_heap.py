"""C16 - the priority queue always yields a minimum.

Explicit-state search (E2) over the real FibonacciHeap / MaxFibonacciHeap: every reachable heap under
{push(k), pop, peek, decrease_key(node,k'), remove(node)} with keys from a small domain and at most CAP live
items (push disabled at the cap => finite space, searched to fixpoint). A state is the operation history that
reaches it; it is rebuilt by replaying the history on a fresh heap; states are merged by a canonical form of the
forest (keys, marks, deleted flags, ring order from _root, position of _min, _n) which determines all futures.
Reference model in lock-step: a dict  node -> key.
"""
import itertools

from mc.run import Result, h, time_limit, CaseTimeout

ID = 'C16'
LEVEL = 'model_checking'
RULE = ('explicit-state BFS to fixpoint over the real heap objects; state = canonical forest; transition = one public '
        'operation; an outcome is distinct/non-trivial when its canonical heap state is new; helpers smallest/largest '
        'are enumerated over all sequences x n')
STEP_TIMEOUT = 5
MANIFEST = {
    'technique': 'explicit-state model checking (BFS to fixpoint) of the real heap objects against a dict model',
    'text': 'All reachable states of the real FibonacciHeap/MaxFibonacciHeap under push/pop/peek/decrease_key/remove '
            'with keys in a 3-4 value domain and at most 5 (quick) / 6 (thorough) live items are visited to fixpoint; '
            'after every transition the size, the peeked/popped key, the identity of the removed node and the forest '
            'invariants are compared with a dict model. smallest/largest are enumerated over all sequences x n.',
    'note': 'Bounded: keys {0..3}, <= 6 live items; the "long random sequences" part of the quantifier is sampling '
            'and is not done. Trusts CPython and ~150 lines of harness.',
    'design_ref': 'DESIGN.md 4/C16, 3.2',
}
ASSUMPTIONS = ['keys are small ints; items hashable', 'merge (__add__) and clear() are outside the property statement',
               'node handles passed to decrease_key/remove are live members of the heap (documented precondition)']


# ----------------------------------------------------------------------------------------------------------------
def _variants(tier):
    if tier == 'quick':
        return [('min', 'keyfn', (0, 1, 2), 5), ('max', 'keyfn', (0, 1, 2), 4), ('min', 'plain', (0, 1, 2), 4),
                ('max', 'plain', (0, 1), 4)]
    return [('min', 'keyfn', (0, 1, 2), 6), ('max', 'keyfn', (0, 1, 2), 6), ('min', 'plain', (0, 1, 2), 5),
            ('max', 'plain', (0, 1, 2), 5), ('min', 'keyfn', (0, 1, 2, 3), 5)]


class Sim:
    """The real heap plus the reference model, driven by one operation history."""

    def __init__(self, variant):
        from graphtage.fibonacci import FibonacciHeap, MaxFibonacciHeap
        self.kind, self.itemmode, self.keys, self.cap = variant
        cls = FibonacciHeap if self.kind == 'min' else MaxFibonacciHeap
        if self.itemmode == 'keyfn':
            self.heap = cls(key=lambda it: it[1])
        else:
            self.heap = cls()
        self.model = {}     # id(node) -> plain key of every live node
        self.nodes = {}     # id(node) -> node (keeps them alive so ids stay unique)
        self.serial = 0

    # -- helpers on the real structure ---------------------------------------------------------------------------
    def plain_key(self, node):
        k = node.key
        return k.key if self.kind == 'max' else k

    def better(self, a, b):
        """a strictly before b in heap order (plain keys)."""
        return a < b if self.kind == 'min' else a > b

    def best(self):
        vals = list(self.model.values())
        return min(vals) if self.kind == 'min' else max(vals)

    def ring(self, start):
        out = []
        if start is None:
            return out
        node = start
        for _ in range(128):
            out.append(node)
            node = node.right
            if node is start:
                return out
        raise AssertionError('sibling ring does not close')

    def walk(self):
        """DFS over the forest from _root in ring order -> list of (node, depth)."""
        out = []

        def rec(start, depth):
            for n in self.ring(start):
                out.append((n, depth))
                if len(out) > 128:
                    raise AssertionError('forest larger than any reachable heap (cycle?)')
                if n.child is not None:
                    rec(n.child, depth + 1)
        rec(self.heap._root, 0)
        return out

    def canon(self):
        def tree(n):
            kids = tuple(tree(c) for c in self.ring(n.child)) if n.child is not None else ()
            return (self.plain_key(n), n.mark, n.deleted, kids)
        forest = tuple(tree(r) for r in self.ring(self.heap._root))
        order = [n for n, _ in self.walk()]
        minpos = None
        if self.heap._min is not None:
            for i, n in enumerate(order):
                if n is self.heap._min:
                    minpos = i
        return (self.heap._n, minpos, forest)

    def check_structure(self):
        """Structural invariants of every reachable state. Returns None or a (kind, detail) pair."""
        hp = self.heap
        try:
            order = self.walk()
        except AssertionError as e:
            return ('structure', str(e))
        ids = [id(n) for n, _ in order]
        if len(set(ids)) != len(ids):
            return ('structure', 'a node is reachable twice')
        if set(ids) != set(self.model):
            return ('membership', f'heap holds {len(ids)} nodes, model {len(self.model)}; '
                                  f'lost={len(set(self.model) - set(ids))} ghost={len(set(ids) - set(self.model))}')
        if len(hp) != len(self.model):
            return ('size', f'len(heap)={len(hp)} live={len(self.model)}')
        if bool(hp) != bool(self.model):
            return ('size', f'bool(heap)={bool(hp)} live={len(self.model)}')
        for n, depth in order:
            if n.left.right is not n or n.right.left is not n:
                return ('structure', 'left/right not inverse')
            if depth == 0 and n.parent is not None:
                return ('structure', 'root with parent')
            kids = self.ring(n.child) if n.child is not None else []
            if n.degree != len(kids):
                return ('structure', f'degree {n.degree} != children {len(kids)}')
            for c in kids:
                if c.parent is not n:
                    return ('structure', 'child.parent mismatch')
                if self.better(self.model[id(c)], self.model[id(n)]):
                    return ('heap_order', f'child key {self.model[id(c)]} before parent key {self.model[id(n)]}')
            if self.plain_key(n) != self.model[id(n)]:
                return ('key', f'node key {self.plain_key(n)} model {self.model[id(n)]}')
        if self.model:
            if hp._min is None:
                return ('min_pointer', 'non-empty heap without min')
            if id(hp._min) not in self.model:
                return ('min_pointer', 'min pointer outside the heap')
        return None

    # -- operations -----------------------------------------------------------------------------------------------
    def enabled(self):
        ops = []
        live = [n for n, _ in self.walk()]
        if len(self.model) < self.cap:
            for k in self.keys:
                ops.append(('push', k))
        if self.model:
            ops.append(('pop',))
            ops.append(('peek',))
        for pos, n in enumerate(live):
            cur = self.model[id(n)]
            for k in self.keys:
                if k == cur or self.better(k, cur):
                    ops.append(('dec', pos, k))
            ops.append(('rem', pos))
        return ops

    def apply(self, op):
        """Apply one operation to heap and model. Returns None or (kind, detail) on an oracle failure."""
        from graphtage.fibonacci import ReversedComparator
        hp = self.heap
        name = op[0]
        if name == 'push':
            k = op[1]
            self.serial += 1
            item = (self.serial, k) if self.itemmode == 'keyfn' else k
            node = hp.push(item)
            self.model[id(node)] = k
            self.nodes[id(node)] = node
        elif name == 'peek':
            before = self.canon_membership()
            item = hp.peek()
            best = self.best()
            cands = [n for i, n in self.nodes.items() if i in self.model and n.item == item and self.model[i] == best]
            if not cands:
                return ('peek_not_min', f'peek returned {item!r}, best live key {best}')
            if self.canon_membership() != before:
                return ('peek_mutates', 'peek changed the set of live nodes')
        elif name == 'pop':
            best = self.best()
            item = hp.pop()
            present = {id(n) for n, _ in self.walk()}
            gone = [i for i in self.model if i not in present]
            if len(gone) != 1:
                return ('pop_membership', f'pop removed {len(gone)} nodes')
            g = gone[0]
            if self.nodes[g].item != item:
                return ('pop_item', f'pop returned {item!r} but removed node holds {self.nodes[g].item!r}')
            if self.model[g] != best:
                return ('pop_not_min', f'pop returned key {self.model[g]}, best live key {best}')
            del self.model[g]
        elif name == 'dec':
            node = self.walk()[op[1]][0]
            k = op[2]
            hp.decrease_key(node, ReversedComparator(k) if self.kind == 'max' else k)
            self.model[id(node)] = k
        elif name == 'rem':
            node = self.walk()[op[1]][0]
            hp.remove(node)
            del self.model[id(node)]
        else:
            raise ValueError(op)
        return self.check_structure()

    def canon_membership(self):
        return frozenset(id(n) for n, _ in self.walk())


def build(variant, hist):
    s = Sim(variant)
    for op in hist:
        bad = s.apply(op)
        if bad:
            return s, bad
    return s, None


def classify(variant, op, kind, exc=None):
    if exc is not None:
        site = _site(exc)
        return f'exception {type(exc).__name__} @ {site} : op {op[0]} on {variant[0]}-heap'
    return f'{kind} @ fibonacci.{"Max" if variant[0] == "max" else ""}FibonacciHeap : after op {op[0]}'


def _site(exc):
    import traceback
    tb = traceback.extract_tb(exc.__traceback__)
    for fr in reversed(tb):
        if '/graphtage/' in fr.filename:
            return f'{fr.filename.rsplit("/", 1)[-1]}:{fr.name}'
    return 'harness'


def step(variant, hist, op):
    """Rebuild the state reached by hist, apply op, return (failure or None, canon or None)."""
    s, bad = build(variant, hist)
    assert bad is None, 'prefix of an explored history must be clean'
    try:
        with time_limit(STEP_TIMEOUT):
            bad = s.apply(op)
    except CaseTimeout:
        return {'key': f'timeout @ fibonacci : op {op[0]} on {variant[0]}-heap did not return in {STEP_TIMEOUT}s',
                'detail': 'livelock inside one heap operation'}, None
    except AssertionError as e:
        if _site(e) == 'harness':       # raised by the harness walk: the forest itself is malformed
            return {'key': classify(variant, op, 'structure'), 'detail': str(e)}, None
        return {'key': classify(variant, op, None, e), 'detail': repr(e)}, None
    except Exception as e:  # noqa
        return {'key': classify(variant, op, None, e), 'detail': repr(e)}, None
    if bad:
        return {'key': classify(variant, op, bad[0]), 'detail': bad[1]}, None
    return None, s.canon()


def _expand_chunk(a):
    variant, hists = a
    out = []
    for hist in hists:
        s, bad = build(variant, hist)
        assert bad is None
        for op in s.enabled():
            fail, canon = step(variant, hist, op)
            out.append((hist + (op,), fail, h(canon) if canon is not None else None))
    return out


def bfs(ctx, variant, res):
    start, _ = build(variant, ())
    seen = {h(start.canon())}
    frontier = [()]
    depth = 0
    states = 1
    transitions = 0
    while frontier:
        nchunks = max(1, min(len(frontier), ctx.workers * 4))
        chunks = [(variant, frontier[i::nchunks]) for i in range(nchunks)]
        results = ctx.map(_expand_chunk, chunks)
        # deterministic merge: order by history
        merged = sorted(itertools.chain.from_iterable(results), key=lambda r: r[0])
        nxt = []
        for hist, fail, ck in merged:
            transitions += 1
            if fail:
                res.fail(fail['key'], {'variant': list(variant), 'history': [list(o) for o in hist]}, fail['detail'],
                         order=len(hist) * 10 ** 6 + transitions)
                continue
            if ck not in seen:
                seen.add(ck)
                nxt.append(hist)
                states += 1
                if len(res.samples) < 4 and len(hist) in (3, 7, 12):
                    res.samples.append({'variant': list(variant), 'history': [list(o) for o in hist]})
        frontier = nxt
        if frontier:
            depth += 1
    res.states += states
    res.transitions += transitions
    res.traces += transitions
    res.evaluations += transitions
    res.outcomes |= seen
    res.extra.setdefault('per_variant', {})['/'.join(map(str, variant))] = \
        f'states={states} transitions={transitions} depth={depth} fixpoint=yes'
    return states


# ---- larger heaps, from a non-initial state -------------------------------------------------------------------------
def big_prefix(kind, n):
    """n pushes of distinct keys (worst first for a max-heap) and one pop: one consolidated forest with trees of degree
    up to log2(n - 1) - the shapes that cascading cuts need and that <= 6 live items cannot have."""
    keys = [10 * i for i in range(n)]
    if kind == 'max':
        keys = [-k for k in keys]
    return tuple(('push', k) for k in keys) + (('pop',),)


def big_enabled(sim):
    ops = [('pop',)] if sim.model else []
    live = [n for n, _ in sim.walk()]
    if sim.model:
        best = sim.best()
        newbest = best - 1 if sim.kind == 'min' else best + 1
        for pos in range(len(live)):
            ops.append(('rem', pos))
            ops.append(('dec', pos, newbest))
    return ops


def _expand_big_chunk(a):
    variant, hists = a
    out = []
    for hist in hists:
        s, bad = build(variant, hist)
        assert bad is None
        for op in big_enabled(s):
            fail, canon = step(variant, hist, op)
            out.append((hist + (op,), fail, h(canon) if canon is not None else None))
    return out


def big_bfs(ctx, kind, itemmode, n, maxdepth, res):
    variant = (kind, itemmode, (), 10 ** 6)
    prefix = big_prefix(kind, n)
    start, bad = build(variant, prefix)
    if bad:
        res.fail(classify(variant, prefix[-1], bad[0]), {'variant': list(variant), 'history': [list(o) for o in prefix]}, bad[1], order=0)
        return
    seen = {h(start.canon())}
    frontier = [prefix]
    states, transitions, depth = 1, 0, 0
    while frontier and depth < maxdepth:
        nchunks = max(1, min(len(frontier), ctx.workers * 4))
        results = ctx.map(_expand_big_chunk, [(variant, frontier[i::nchunks]) for i in range(nchunks)])
        merged = sorted(itertools.chain.from_iterable(results), key=lambda r: repr(r[0]))
        nxt = []
        for hist, fail, ck in merged:
            transitions += 1
            if fail:
                res.fail(fail['key'], {'variant': list(variant), 'history': [list(o) for o in hist]}, fail['detail'],
                         order=10 ** 8 + len(hist) * 10 ** 6 + transitions)
                continue
            if ck not in seen:
                seen.add(ck)
                nxt.append(hist)
                states += 1
        frontier = nxt
        depth += 1
    res.states += states
    res.transitions += transitions
    res.traces += transitions
    res.evaluations += transitions
    res.outcomes |= seen
    res.extra.setdefault('per_variant', {})[f'{kind}/{itemmode}/after {n} pushes and a pop'] = \
        f'states={states} transitions={transitions} depth={depth} (depth-bounded: remove / decrease-to-new-minimum / pop only)'


# ---- smallest / largest ------------------------------------------------------------------------------------------
def helper_cases(tier):
    L = 5 if tier == 'quick' else 6
    for n_items in range(0, L + 1):
        for seq in itertools.product((0, 1, 2), repeat=n_items):
            for n in range(0, n_items + 2):
                for fn in ('smallest', 'largest'):
                    for form in ('iterable', 'varargs', 'keyed'):
                        if form == 'varargs' and n_items < 2:
                            continue
                        yield (fn, form, list(seq), n)


def helper_eval(case):
    from graphtage import utils
    fn, form, seq, n = case
    f = getattr(utils, fn)
    try:
        with time_limit(STEP_TIMEOUT):
            if form == 'iterable':
                got = list(f(list(seq), n=n))
            elif form == 'varargs':
                got = list(f(*seq, n=n))
            else:
                got = [x[0] for x in f([(v, i) for i, v in enumerate(seq)], n=n, key=lambda t: t[0])]
    except CaseTimeout:
        return {'key': f'timeout @ utils.{fn}', 'detail': 'helper did not return'}, None
    except Exception as e:  # noqa
        return {'key': f'exception {type(e).__name__} @ {_site(e)} : utils.{fn}', 'detail': repr(e)}, None
    want = sorted(seq, reverse=(fn == 'largest'))[:n]
    if sorted(got) != sorted(want):
        return {'key': f'helper_wrong @ utils.{fn} : {form} form', 'detail': f'got {got} want {want}'}, None
    return None, (fn, tuple(sorted(got)))


def _helper_shard(i, n, tier, payload):
    r = Result()
    for idx, case in enumerate(helper_cases(tier)):
        if idx % n != i:
            continue
        r.evaluations += 1
        fail, out = helper_eval(case)
        if fail:
            r.fail(fail['key'], {'helper': case}, fail['detail'], order=10 ** 9 + idx)
        else:
            r.outcomes.add(h(out))
    return r


def run(ctx):
    from mc.run import run_sharded
    res = Result()
    for variant in _variants(ctx.tier):
        bfs(ctx, variant, res)
    q = ctx.tier == 'quick'
    for kind, itemmode, n, d in ((('min', 'plain', 9, 4), ('max', 'plain', 9, 4), ('min', 'keyfn', 17, 3)) if q else
                                 (('min', 'plain', 9, 6), ('max', 'plain', 9, 6), ('min', 'keyfn', 17, 4), ('max', 'keyfn', 17, 4),
                                  ('min', 'plain', 33, 3))):
        big_bfs(ctx, kind, itemmode, n, d, res)
    hr = run_sharded(ctx, __name__, '_helper_shard', ctx.workers)
    res.extra['helper_cases'] = hr.evaluations
    res.merge(hr)
    res.samples.append({'helper': ['smallest', 'iterable', [2, 0, 1, 0], 2]})
    return res


def replay(case):
    if 'helper' in case:
        fail, _ = helper_eval(case['helper'])
        return fail
    variant = tuple(tuple(x) if isinstance(x, list) else x for x in case['variant'])
    hist = tuple(tuple(o) for o in case['history'])
    fail, _ = step(variant, hist[:-1], hist[-1])
    return fail

"""C15 - minimum-weight assignment is valid and optimal.

E1: all r x c weight tables, r, c <= 3, over {0,1,2} (ints), {0.0,0.5,1.5} (floats), bools; all tiny tables over the
dtype-boundary alphabets; every subset of missing pairs of small tables (sparse). Oracle: brute force over all
injections. Always: the result is one-to-one, uses only existing pairs and reports each pair's weight with the value and
type of the table entry. Complete tables additionally: as many pairs as min(r, c) and the minimum total weight.
"""
import itertools
import json

from mc.run import Result, h, time_limit, CaseTimeout, run_sharded
from mc.script import site_of

ID = 'C15'
LEVEL = 'model_checking'
CASE_TIMEOUT = 30
BOUNDARY = (0, 1, 255, 256, 65535, 65536, 2 ** 32 - 1, 2 ** 32, 2 ** 53, 2 ** 53 + 1, 2 ** 63 - 1, 2 ** 63, 2 ** 64 - 1)
SIGNED = (-2 ** 63, -2 ** 31 - 1, -129, -1, 0, 1, 2 ** 63 - 1)
RULE = ('all tables r,c<=3 over {0,1,2}, {0.0,0.5,1.5}, {False,True}; all 1x1..2x2 (thorough 2x3) tables over the dtype '
        'boundary alphabets; all subsets of missing pairs of all 2x2/2x3/3x2 (thorough 3x3) tables over {0,1}; distinct '
        '= distinct (table, result)')
ASSUMPTIONS = ['weights within the documented domain [-2**63, 2**64); one weight type per table (documented)',
               'brute force over all injections as reference', '"sampled above" in the quantifier is sampling and is not done']
MANIFEST = {
    'technique': 'bounded-exhaustive enumeration of weight tables on the real routine against brute-force assignment',
    'text': 'Every small weight table (ints, floats, bools; rectangular; ties; dtype-boundary weights; every pattern of '
            'missing pairs) is given to the real min_weight_bipartite_matching and the result compared with a brute '
            'force over all injections: one-to-one, existing pairs only, true weights with their type; complete tables '
            'also maximal size and minimum total.',
    'note': 'Bounded: tables up to 3x3 (4x4 over {0,1} thorough).',
    'design_ref': 'DESIGN.md 4/C15',
}


def tables(tier):
    q = tier == 'quick'
    shapes = [(r, c) for r in range(1, 4) for c in range(1, 4)]
    for r, c in shapes:
        for alpha, name in (((0, 1, 2), 'int'), ((0.0, 0.5, 1.5), 'float')):
            if q and r * c == 9 and name == 'float':
                continue
            for cells in itertools.product(alpha, repeat=r * c):
                yield name, [list(cells[i * c:(i + 1) * c]) for i in range(r)]
        for cells in itertools.product((False, True), repeat=r * c):
            yield 'bool', [list(cells[i * c:(i + 1) * c]) for i in range(r)]
    if not q:
        for r, c in ((3, 4), (4, 3)):
            for cells in itertools.product((0, 1, 2), repeat=r * c):
                yield 'int', [list(cells[i * c:(i + 1) * c]) for i in range(r)]
        for cells in itertools.product((0, 1), repeat=16):
            yield 'int', [list(cells[i * 4:(i + 1) * 4]) for i in range(4)]
    # floats whose extremes are integral (a float table must never be treated like the int/bool table with the same range)
    for r, c in [(1, 2), (2, 1), (2, 2)] + ([(2, 3), (3, 2)] if not q else []):
        for cells in itertools.product((0.0, 0.5, 1.0, 1.6, 2.0), repeat=r * c):
            yield 'float-integral-extremes', [list(cells[i * c:(i + 1) * c]) for i in range(r)]
    bshapes = [(1, 1), (1, 2), (2, 1), (2, 2)] + ([] if q else [(2, 3), (3, 2)])
    for r, c in bshapes:
        for alpha, name in ((BOUNDARY, 'boundary'), (SIGNED, 'signed')):
            if r * c > 4 and name == 'boundary':
                alpha = (0, 255, 256, 2 ** 32, 2 ** 53 + 1, 2 ** 63, 2 ** 64 - 1)
            for cells in itertools.product(alpha, repeat=r * c):
                yield name, [list(cells[i * c:(i + 1) * c]) for i in range(r)]
    sshapes = [(2, 2), (2, 3), (3, 2)] + ([] if q else [(3, 3)])
    for r, c in sshapes:
        for cells in itertools.product((0, 1, None), repeat=r * c):
            if None in cells:
                yield 'sparse', [list(cells[i * c:(i + 1) * c]) for i in range(r)]
    for r, c in ((2, 2), (2, 3)):
        for cells in itertools.product((0.5, 1.5, None), repeat=r * c):
            if None in cells:
                yield 'sparse-float', [list(cells[i * c:(i + 1) * c]) for i in range(r)]
    # float tables with missing pairs and negative weights (the reported weight must be the table entry, bit for bit)
    for r, c in ((2, 2), (2, 3)):
        for cells in itertools.product((0.1, -0.3, 0.7, None) if not q else (0.1, -0.3, None), repeat=r * c):
            if None in cells:
                yield 'sparse-float-signed', [list(cells[i * c:(i + 1) * c]) for i in range(r)]
    # bool tables with missing pairs (the placeholder for a missing pair is an int in a bool matrix)
    for r, c in ((1, 2), (2, 1), (2, 2), (2, 3), (3, 2)):
        for cells in itertools.product((False, True, None), repeat=r * c):
            if None in cells:
                yield 'sparse-bool', [list(cells[i * c:(i + 1) * c]) for i in range(r)]
    # thin but very long tables (4096 and 16384 cells): any shortcut that depends on the size of the table is crossed.
    # One filler weight everywhere except a 2 x 2 corner over {0, 1, 9}; the optimum is still computed exactly.
    for n_long in (2048, 8192) if not q else (2048,):
        for corner in itertools.product((0, 1, 9), repeat=4):
            for filler in (5,) if q else (5, 0):
                wide = [[filler] * n_long for _ in range(2)]
                wide[0][0], wide[0][1], wide[1][0], wide[1][1] = corner
                yield 'long-thin', wide
                yield 'long-thin', [list(col) for col in zip(*wide)]
        yield 'long-thin', [[3] * (2 * n_long)]
        yield 'long-thin', [[0] + [1] * (2 * n_long - 1)]
    # tall / wide tables of huge weights far apart: float64 tells them apart exactly (multiples of 2**54)
    for r, c in ((2, 1), (1, 2), (3, 1), (3, 2), (2, 3)):
        for cells in itertools.product((2 ** 54, 3 * 2 ** 54, 10 * 2 ** 54), repeat=r * c):
            yield 'huge-exact', [list(cells[i * c:(i + 1) * c]) for i in range(r)]


def brute(table):
    r, c = len(table), len(table[0])
    if min(r, c) <= 2 and max(r, c) > 8:
        return brute_thin(table if r <= c else [list(col) for col in zip(*table)])
    best = None
    rows, cols = list(range(r)), list(range(c))
    k = min(r, c)
    if r <= c:
        for perm in itertools.permutations(cols, k):
            t = sum(table[i][perm[i]] for i in range(k))
            best = t if best is None or t < best else best
    else:
        for perm in itertools.permutations(rows, k):
            t = sum(table[perm[j]][j] for j in range(k))
            best = t if best is None or t < best else best
    return best


def short(x):
    t = repr(x)
    return t if len(t) <= 400 else t[:300] + f' ...({len(t)} characters)... ' + t[-60:]


def brute_thin(rows):
    """Optimum of a table with one or two rows and many columns (all columns are candidates: exact, not sampled)."""
    if len(rows) == 1:
        return min(rows[0])
    a, b = rows
    best = None
    # the best pair uses one of the two cheapest columns of each row
    ia = sorted(range(len(a)), key=lambda j: a[j])[:2]
    ib = sorted(range(len(b)), key=lambda j: b[j])[:2]
    for i in ia:
        for j in ib:
            if i != j and (best is None or a[i] + b[j] < best):
                best = a[i] + b[j]
    return best


def float64_explains(table, res):
    """True iff the assignment is optimal for the table as float64 sees it, up to the rounding error of a handful of
    float64 additions at the magnitude of the largest weight - the one documented limit (known finding) of the routine."""
    import math
    rounded = [[int(float(w)) for w in row] for row in table]
    chosen = sum(rounded[f][t] for f, (t, _) in res.items())
    big = max(abs(w) for row in rounded for w in row)
    ulp = int(math.ulp(float(big))) or 1
    return chosen - brute(rounded) <= 4 * max(len(table), len(table[0])) * ulp


def evaluate(name, table):
    from graphtage.matching import min_weight_bipartite_matching
    r, c = len(table), len(table[0])
    try:
        with time_limit(CASE_TIMEOUT):
            res = min_weight_bipartite_matching(list(range(r)), list(range(c)), lambda a, b: table[a][b])
    except CaseTimeout:
        return {'key': f'timeout @ min_weight_bipartite_matching : {name}', 'detail': short(table)}, None
    except Exception as ex:  # noqa
        big = max((abs(w) for row in table for w in row if w is not None and not isinstance(w, bool)), default=0)
        mixed = min((w for row in table for w in row if w is not None), default=0) < 0 and big >= 2 ** 63
        feat = 'negative and >= 2**63 weights in one table' if mixed else f'{name} table'
        return {'key': f'exception {type(ex).__name__} @ {site_of(ex)} : {feat}', 'detail': f'{short(table)}: {ex!r}'}, None
    complete = all(w is not None for row in table for w in row)
    tos = [v[0] for v in res.values()]
    big = max((abs(w) for row in table for w in row if w is not None and not isinstance(w, bool)), default=0)
    total_abs = sum(abs(w) for row in table for w in row if w is not None and not isinstance(w, bool))
    # scipy solves in float64: exact as long as every partial sum of weights is below 2**53
    feat = 'sum|w| > 2**53' if total_abs > 2 ** 53 else ('sparse' if not complete else f'{name}, sum|w| <= 2**53')
    if len(set(tos)) != len(tos) or any(not (0 <= f < r and 0 <= t < c) for f, (t, _) in res.items()):
        return {'key': f'not_one_to_one @ min_weight_bipartite_matching : {feat}', 'detail': f'{short(table)} -> {short(res)}'}, None
    for f, (t, w) in res.items():
        if table[f][t] is None:
            return {'key': f'missing_pair_used @ min_weight_bipartite_matching : {feat}', 'detail': f'{short(table)} -> {short(res)}'}, None
        if w != table[f][t] or type(w) is not type(table[f][t]):
            return {'key': f'reported_weight_wrong @ min_weight_bipartite_matching : {feat}',
                    'detail': f'{short(table)} -> {short(res)}: pair ({f},{t}) has weight {table[f][t]!r}'}, None
    if complete:
        if len(res) != min(r, c):
            return {'key': f'not_maximal @ min_weight_bipartite_matching : {feat}', 'detail': f'{short(table)} -> {short(res)}'}, None
        total = sum(w for _, w in res.values())
        opt = brute(table)
        if total != opt:
            if total_abs > 2 ** 53 and not float64_explains(table, res):
                feat = 'sum|w| > 2**53, but not optimal for the table rounded to float64 either'
            return {'key': f'suboptimal @ min_weight_bipartite_matching->linear_sum_assignment : {feat}',
                    'detail': f'{short(table)} -> {short(res)}: total {total}, optimum {opt}'}, None
    return None, h((json.dumps(table), sorted((f, t) for f, (t, _) in res.items())))


def _shard(i, n, tier, payload):
    r = Result()
    counts = {}
    for idx, (name, table) in enumerate(tables(tier)):
        if idx % n != i:
            continue
        r.evaluations += 1
        counts[name] = counts.get(name, 0) + 1
        fail, out = evaluate(name, table)
        if fail:
            r.fail(fail['key'], {'name': name, 'table_json': json.dumps(table)}, fail['detail'], order=idx)
        else:
            r.outcomes.add(out)
        if idx % 4001 == 0 and len(r.samples) < 4:
            r.samples.append({'kind': name, 'table': table})
    r.extra['tables_per_kind'] = counts
    return r


def run(ctx):
    return run_sharded(ctx, __name__, '_shard', ctx.workers * 4)


def replay(case):
    fail, _ = evaluate(case['name'], json.loads(case['table_json']))
    return fail

"""C06 - both documents can be read back from the rendered diff.

E1: all JSON document pairs with |A|+|B| <= N over a hostile string alphabet (quotes, arrows, tildes, pluses, control
and non-ASCII characters, the combining marks themselves, ANSI escapes) as values and keys x dictionary strategies x
join layouts. The diff is rendered with JSONFormatter on Printer(ansi_color=True). A lexer classifies every output
character as removed (followed by U+0336 or on a red background), inserted (followed by U+031F or on a green
background), arrow (the cyan ' -> ') or plain; deleting inserted characters and arrows must leave text that parses
(separators aside) to A, deleting removed characters and arrows text that parses to B; the output carries marks iff
A != B.
"""
import io
import itertools
import json
import re

from mc.run import Result, h, time_limit, CaseTimeout, run_sharded
from mc import pairspace, cli
from mc.gen import DocSpace, canon, build_options, DICT_STRATEGIES
from mc.script import site_of

ID = 'C06'
LEVEL = 'model_checking'
CASE_TIMEOUT = 30
LAYOUTS = ((False, False), (True, False), (False, True), (True, True))
RULE = ('all JSON document pairs with |A|+|B| <= N over hostile scalars/keys x relevant {auto,match,none} x relevant join '
        'layouts, rendered in colour; distinct = distinct rendered text')
ASSUMPTIONS = ['ANSI semantics: SGR 41/42 set a red/green background, 49 and 0 reset it; 36 is cyan, 39 and 0 reset the colour',
               'the JSON formatter escapes all non-ASCII and control characters, so marks in the output never come from data '
               '(asserted on every render)', 'equality as in C02']
MANIFEST = {
    'technique': 'bounded-exhaustive enumeration of document pairs x options x layouts on the real renderer, projection-and-reparse oracle',
    'text': 'Every pair of small JSON documents over strings chosen to collide with the rendering syntax is diffed and '
            'rendered in colour under each dictionary strategy and join layout; an independent lexer projects the output '
            'onto its "first document" and "second document" views, which must parse to exactly the generated inputs, '
            'and marks must be present iff the documents differ.',
    'note': 'Bounded by N=4 over 9 hostile scalars (quick); N=4 over 19 scalars and N=5 over 6 scalars (thorough); list-edit options are left at their defaults here (C01/C10 cover them).',
    'design_ref': 'DESIGN.md 4/C06',
}

QUICK_SCALARS = (1, 'ab', 'b', '', ' -> ~~++"', None, '\x1b[41m̶', True, '\U0001F600z')
QUICK_KEYS = ('a', 'ab', '"->\U00010000')
FULL_SCALARS = (1, 2, 'ab', 'b', '', '\U0001F600', '"', ' -> ', '~~', '++', '\n', '\x01', 'é', '̶', '̟', '\x1b[41m', None, True, 1.5)
FULL_KEYS = ('a', 'ab', '"', ' -> ', '̶')


def render(a, b, ds, layout):
    from graphtage.printer import Printer
    from graphtage.json import JSONFormatter
    cli.pin_colorama()
    ta = pairspace.build('json', a, [ds, 'on'])
    tb = pairspace.build('json', b, [ds, 'on'])
    d = ta.diff(tb)
    buf = io.StringIO()
    p = Printer(buf, ansi_color=True, quiet=True, options={'join_lists': layout[0], 'join_dict_items': layout[1]})
    JSONFormatter.DEFAULT_INSTANCE.print(p, d)
    return buf.getvalue()


SGR = re.compile(r'\x1b\[([0-9;]*)m')


def lex(text):
    """-> list of (char, attr) with attr in {'keep', 'removed', 'inserted', 'arrow'}; raises ValueError on stray escapes."""
    out = []
    bg = None
    fg = None
    i = 0
    n = len(text)
    while i < n:
        m = SGR.match(text, i)
        if m:
            for code in (m.group(1) or '0').split(';'):
                c = int(code or 0)
                if c == 0:
                    bg = fg = None
                elif c == 41:
                    bg = 'red'
                elif c == 42:
                    bg = 'green'
                elif c == 49:
                    bg = None
                elif 40 <= c <= 47:
                    bg = 'other'
                elif c == 36:
                    fg = 'cyan'
                elif c == 39:
                    fg = None
                elif 30 <= c <= 37:
                    fg = 'other'
            i = m.end()
            continue
        ch = text[i]
        if ch == '\x1b':
            raise ValueError(f'unexpected escape at {i}')
        if ch in '̶̟':
            raise ValueError(f'combining mark without base character at {i}')
        j = i + 1
        marks = ''
        while j < n and text[j] in '̶̟':
            marks += text[j]
            j += 1
        if '̶' in marks and '̟' in marks:
            raise ValueError(f'character at {i} is marked both removed and inserted')
        if '̶' in marks or bg == 'red':
            attr = 'removed'
            if '̟' in marks or (bg == 'green'):
                raise ValueError(f'conflicting marks at {i}')
        elif '̟' in marks or bg == 'green':
            attr = 'inserted'
        elif fg == 'cyan':
            attr = 'arrow'
        else:
            attr = 'keep'
        out.append((ch, attr))
        i = j
    arrows = ''.join(c for c, a in out if a == 'arrow')
    if arrows.replace(' -> ', '') != '':
        raise ValueError(f'cyan text other than arrows: {arrows!r}')
    return out


class ParseError(Exception):
    pass


def tolerant_parse(s):
    """JSON where ',' is whitespace (separator placement aside). Returns the value; the whole text must be consumed."""
    pos = [0]
    n = len(s)

    def ws():
        while pos[0] < n and s[pos[0]] in ' \t\r\n,':
            pos[0] += 1

    def value():
        ws()
        if pos[0] >= n:
            raise ParseError('unexpected end')
        c = s[pos[0]]
        if c == '{':
            pos[0] += 1
            d = {}
            while True:
                ws()
                if pos[0] >= n:
                    raise ParseError('unterminated object')
                if s[pos[0]] == '}':
                    pos[0] += 1
                    return d
                k = value()
                if not isinstance(k, str):
                    raise ParseError(f'non-string key {k!r}')
                ws()
                if pos[0] >= n or s[pos[0]] != ':':
                    raise ParseError(f'expected : at {pos[0]}')
                pos[0] += 1
                v = value()
                if k in d:
                    raise ParseError(f'duplicate key {k!r}')
                d[k] = v
        if c == '[':
            pos[0] += 1
            lst = []
            while True:
                ws()
                if pos[0] >= n:
                    raise ParseError('unterminated array')
                if s[pos[0]] == ']':
                    pos[0] += 1
                    return lst
                lst.append(value())
        if c == '"':
            j = pos[0] + 1
            while j < n:
                if s[j] == '\\':
                    j += 2
                    continue
                if s[j] == '"':
                    break
                j += 1
            if j >= n:
                raise ParseError('unterminated string')
            lit = s[pos[0]:j + 1]
            pos[0] = j + 1
            try:
                return json.loads(lit.replace('\n', '\\n').replace('\t', '\\t'))
            except ValueError as e:
                raise ParseError(f'bad string literal {lit!r}: {e}')
        m = re.compile(r'-?[0-9][0-9.eE+-]*|true|false|null').match(s, pos[0])
        if not m:
            raise ParseError(f'unexpected {c!r} at {pos[0]}')
        pos[0] = m.end()
        try:
            return json.loads(m.group(0))
        except ValueError as e:
            raise ParseError(f'bad literal {m.group(0)!r}')

    v = value()
    ws()
    if pos[0] != n:
        raise ParseError(f'trailing text {s[pos[0]:pos[0] + 20]!r}')
    return v


def shape(a, b):
    ka = type(a).__name__
    kb = type(b).__name__
    return f'{ka} vs {kb}'


def first_difference(a, b):
    """Smallest sub-document pair that differs (for the class key)."""
    if type(a) is type(b) and isinstance(a, list) and len(a) == len(b):
        diffs = [(x, y) for x, y in zip(a, b) if canon(x) != canon(y)]
        if len(diffs) == 1:
            return first_difference(*diffs[0])
    if type(a) is type(b) and isinstance(a, dict) and set(a) == set(b):
        diffs = [(a[k], b[k]) for k in a if canon(a[k]) != canon(b[k])]
        if len(diffs) == 1:
            return first_difference(*diffs[0])
    return a, b


def describe(v):
    if isinstance(v, (list, dict)):
        return ('empty ' if not v else '') + type(v).__name__
    return type(v).__name__


def evaluate(case):
    a, b, ds, layout = case['a'], case['b'], case['ds'], tuple(case['layout'])
    tag = f'dict={ds}, join_lists={layout[0]}, join_dict_items={layout[1]}'
    try:
        with time_limit(CASE_TIMEOUT):
            text = render(a, b, ds, layout)
    except CaseTimeout:
        return {'key': f'timeout @ render : {tag}', 'detail': f'{a!r} -> {b!r}'}, None
    except Exception as ex:  # noqa
        import traceback
        return {'key': f'exception {type(ex).__name__} @ {site_of(ex)} : {tag}', 'detail': f'{a!r} -> {b!r}\n' + traceback.format_exc()[-900:]}, None
    sa, sb = first_difference(a, b)
    what = f'{describe(sa)} -> {describe(sb)}'
    try:
        chars = lex(text)
    except ValueError as e:
        return {'key': f'unreadable_marks @ JSON rendering : {what}', 'detail': f'{a!r} -> {b!r}: {e}; {text!r}'}, None
    va = ''.join(c for c, at in chars if at in ('keep', 'removed'))
    vb = ''.join(c for c, at in chars if at in ('keep', 'inserted'))
    equal = canon(a) == canon(b)
    marked = any(at != 'keep' for _, at in chars)
    for side, view, doc in (('first', va, a), ('second', vb, b)):
        try:
            got = tolerant_parse(view)
        except ParseError as e:
            return {'key': f'{side}_view_does_not_parse @ JSON rendering : {what}',
                    'detail': f'{a!r} -> {b!r} ({tag}): {e}; view {view!r}; output {text!r}'}, None
        if canon(got) != canon(doc):
            return {'key': f'{side}_view_is_a_different_document @ JSON rendering : {what}',
                    'detail': f'{a!r} -> {b!r} ({tag}): view parses to {got!r}; output {text!r}'}, None
    if marked == equal:
        return {'key': f'{"marks_on_equal_documents" if equal else "no_marks_on_different_documents"} @ JSON rendering : {what}',
                'detail': f'{a!r} -> {b!r} ({tag}): {text!r}'}, None
    return None, h(text)


def cases(tier):
    q = tier == 'quick'
    if q:
        spaces = [(DocSpace(QUICK_SCALARS, QUICK_KEYS, 3), 4)]
    else:
        spaces = [(DocSpace(FULL_SCALARS, FULL_KEYS[:2], 3), 4), (DocSpace(QUICK_SCALARS[:6], QUICK_KEYS[:2], 3), 5)]
    idx = 0
    # mappings whose keys are renamed (same-length and different-length renames, with a second pair competing in the
    # matcher): the shape in which key edits, value edits and whole-pair removals/insertions are all in play
    keys = ('id', 'no', 'a')
    vals = (1, 'ab', ['a', 'b', 'c']) if q else (1, [], 'ab', ['a', 'b', 'c'], None)
    docs = []
    for combo in itertools.product((None,) + tuple(range(len(vals))), repeat=len(keys)):
        docs.append({k: vals[i] for k, i in zip(keys, combo) if i is not None})
    for a in docs:
        for b in docs:
            for ds in DICT_STRATEGIES:
                for layout in (LAYOUTS if not q else (LAYOUTS[0], LAYOUTS[3])):
                    yield idx, {'a': a, 'b': b, 'ds': ds, 'layout': list(layout)}
                    idx += 1
    # lists holding the same container value more than once (the copies are distinct positions and get distinct edits)
    inner = ([], [1], [1, 2]) if q else ([], [1], [1, 2], {'a': 1})
    outer = []
    for n in range(0, 4):
        outer.extend(list(t) for t in itertools.product(inner, repeat=n))
    for a in outer:
        for b in outer:
            for layout in (LAYOUTS[0], LAYOUTS[1]):
                yield idx, {'a': a, 'b': b, 'ds': 'auto', 'layout': list(layout)}
                idx += 1
    # scalars that are equal as Python values and hash alike, but are different JSON (true / 1.0, false / 0.0);
    # no int and no -0.0 among them: 1 vs 1.0 and 0.0 vs -0.0 are unspecified (C02)
    spaces = spaces + [(DocSpace((True, 1.0, False, 0.0, 'a'), ('a',), 3), 4)]
    for space, bud in spaces:
        for a, b in space.pairs(bud):
            has_d = pairspace.has_dict(a) or pairspace.has_dict(b)
            has_l = pairspace.has_list(a) or pairspace.has_list(b)
            for ds in (DICT_STRATEGIES if has_d else ('auto',)):
                for layout in LAYOUTS:
                    if (layout[0] and not has_l) or (layout[1] and not has_d):
                        continue
                    yield idx, {'a': a, 'b': b, 'ds': ds, 'layout': list(layout)}
                    idx += 1


def _shard(i, n, tier, payload):
    r = Result()
    for idx, case in cases(tier):
        if idx % n != i:
            continue
        r.evaluations += 1
        fail, out = evaluate(case)
        if fail:
            r.fail(fail['key'], case, fail['detail'], order=idx)
        else:
            r.outcomes.add(out)
        if idx % 7001 == 0 and len(r.samples) < 3:
            r.samples.append(case)
    return r


def run(ctx):
    return run_sharded(ctx, __name__, '_shard', ctx.workers * 4)


def replay(case):
    fail, _ = evaluate(case)
    return fail

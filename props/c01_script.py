"""C01 - the edit script turns the first document into the second.

E1: every (A, B, options) case of mc.pairspace. Oracle: an independent interpreter reconstructs both documents from
the script returned by A.edits(B) (refined with the library's own driver loop) and from the annotations left on the
tree returned by A.diff(B); both must equal the generated plain values, lists in order, bags with multiplicity.
"""
from mc.run import Result, h, time_limit, CaseTimeout, run_sharded
from mc import pairspace
from mc.gen import canon, bagform
from mc.script import ABSENT, ScriptError, plain, recon, refine, site_of, sub_edits, G

ID = 'C01'
LEVEL = 'model_checking'
CASE_TIMEOUT = 10
RULE = ('bounded-exhaustive enumeration of all tree pairs of mc.pairspace (json documents with |A|+|B| <= N nodes, '
        'list/dict/multiset/XML/CSV/string/python-object families) x all build options that can influence the trees; '
        'distinct = distinct canonical script (edit classes, costs, both sides, recursively)')
ASSUMPTIONS = ['alphabet: scalars {1,2,"ab",None}, keys {a,b} (+ per-family alphabets); node budget as reported',
               'script read after the driver loop of TreeNode.diff; compound sub-edits are completed by edits()']
MANIFEST = {
    'technique': 'bounded-exhaustive exploration of input pairs x build options on the real code, differential reconstruction oracle',
    'text': 'Every pair of trees up to the node budget (and every member of the list/dict/multiset/XML/CSV/string/'
            'pyobj shape families) is diffed under every build option set; an independent interpreter rebuilds both '
            'documents from the edit script and from the EditedTreeNode annotations and compares them with the '
            'generated inputs (order for lists, multiplicity for bags).',
    'note': 'Bounded by node budget 5 (quick) / 6 (thorough) and small alphabets; trusts the ~200-line interpreter in mc/script.py.',
    'design_ref': 'DESIGN.md 4/C01',
}


def locate(e):
    """Deepest compound edit whose own reconstruction disagrees with its from/to nodes while every sub-edit agrees."""
    g = G()
    for s in sub_edits(e):
        if isinstance(s, (g.CompoundEdit, g.StringEdit)):
            loc = locate(s)
            if loc is not None:
                return loc
    if isinstance(e, (g.Remove, g.Insert)):
        return None
    try:
        ra, rb = recon(e)
    except ScriptError:
        return e
    try:
        if canon(ra) != canon(plain(e.from_node)) or canon(rb) != canon(plain(e.to_node)):
            return e
    except ScriptError:
        return e
    return None


def feature(e, case):
    fn, tn = getattr(e, 'from_node', None), getattr(e, 'to_node', None)
    try:
        lf, lt = len(fn.children()), len(tn.children())
        rel = 'from longer' if lf > lt else 'to longer' if lt > lf else 'same length'
    except Exception:  # noqa
        rel = 'n/a'
    ds, lm = case['opt']
    return f'{rel}, dict={ds}, lists={lm}'


def view_b(n):
    """Second document as read from the annotations of an EditedTreeNode (order of insertions unknown -> bags)."""
    g = G()
    from graphtage.xml import XMLElement
    from graphtage.plist import PLISTNode
    if getattr(n, 'removed', False):
        return ABSENT
    e = getattr(n, 'edit', None)
    if e is None:
        return plain(n)
    if isinstance(e, (g.Match, g.Replace, g.StringEdit)):
        return plain(e.to_node)
    inserted = [plain(i) for i in getattr(n, 'inserted', [])]
    if isinstance(n, g.KeyValuePairNode):
        from mc.gen import Pair
        return Pair(view_b(n.key), view_b(n.value))
    if isinstance(n, XMLElement):
        text = None
        if n.text is not None:
            text = view_b(n.text)
            if text is ABSENT:
                text = None
        elif inserted:
            text = inserted[0]
        return {'#tag': view_b(n.tag), '#attrib': view_b(n.attrib), '#text': text, '#children': view_b(n._children)}
    if isinstance(n, PLISTNode):
        return view_b(n.root)
    if isinstance(n, g.MultiSetNode) and any(c > 1 for c in n._children.values()):
        # equal members of a multiset are one shared node object, so per-node annotations cannot tell them apart;
        # the script is the only view that exists for them
        return recon(e)[1]
    if isinstance(n, (g.ListNode, g.MultiSetNode, g.MappingNode)):
        kept = [view_b(c) for c in n]
        kept = [k for k in kept if k is not ABSENT]
        from mc.script import assemble
        return assemble(n, kept + inserted)
    return {'#class': type(n).__name__.replace('Edited', ''), '#children': [view_b(c) for c in n.children()]}


def evaluate(case):
    """Returns (failure or None, outcome)."""
    kind, opt = case['kind'], case['opt']
    try:
        with time_limit(CASE_TIMEOUT):
            ta = pairspace.build(kind, case['a'], opt)
            tb = pairspace.build(kind, case['b'], opt)
            ea = pairspace.expected_plain(kind, case['a'])
            eb = pairspace.expected_plain(kind, case['b'])
            if ea is None:
                ea, eb = plain(ta), plain(tb)
            e = ta.edits(tb)
            refine(e)
            try:
                ra, rb = recon(e)
            except ScriptError as se:
                loc = locate(e) or e
                return {'key': f'script_malformed {se.kind} @ {type(loc).__name__} : {feature(loc, case)}',
                        'detail': str(se)}, None
            bad = None
            if ra is ABSENT or canon(ra) != canon(ea):
                bad = ('first_document_not_reproduced', ra, ea)
            elif rb is ABSENT or canon(rb) != canon(eb):
                bad = ('second_document_not_reproduced', rb, eb)
            if bad:
                loc = locate(e) or e
                return {'key': f'{bad[0]} @ {type(loc).__name__} : {feature(loc, case)}',
                        'detail': f'script gives {bad[1]!r}, input is {bad[2]!r}'}, None
            # second view: annotations on the diff tree
            d = ta.diff(tb)
            try:
                da = plain(d)
                db = view_b(d)
            except ScriptError as se:
                return {'key': f'annot_malformed {se.kind} @ {type(d.edit).__name__} : {feature(d.edit, case)}',
                        'detail': str(se)}, None
            if canon(da) != canon(ea):
                return {'key': f'annot_first_document @ {type(d.edit).__name__} : {feature(d.edit, case)}',
                        'detail': f'edited tree is {da!r}, input {ea!r}'}, None
            if db is ABSENT or bagform(db) != bagform(eb):
                return {'key': f'annot_second_document @ {type(d.edit).__name__} : {feature(d.edit, case)}',
                        'detail': f'annotations give {db!r}, input {eb!r}'}, None
            from mc.script import canon_script
            return None, h(canon_script(e))
    except CaseTimeout:
        return {'key': f'timeout @ diff : {kind} dict={opt[0]}, lists={opt[1]}', 'detail': f'> {CASE_TIMEOUT}s'}, None
    except Exception as ex:  # noqa
        import traceback
        return {'key': f'exception {type(ex).__name__} @ {site_of(ex)} : {kind} dict={opt[0]}, lists={opt[1]}',
                'detail': traceback.format_exc()[-1500:]}, None


def _shard(i, n, tier, payload):
    r = Result()
    fams = {}
    for idx, case in pairspace.shard_cases(tier, i, n):
        r.evaluations += 1
        fams[case['fam']] = fams.get(case['fam'], 0) + 1
        fail, out = evaluate(case)
        if fail:
            r.fail(fail['key'], case, fail['detail'], order=idx)
        else:
            r.outcomes.add(out)
        if idx % 9973 == 0 and len(r.samples) < 3:
            r.samples.append(case)
    r.extra['cases_per_family'] = fams
    return r


def run(ctx):
    return run_sharded(ctx, __name__, '_shard', ctx.workers * 4)


def replay(case):
    fail, _ = evaluate(case)
    return fail
